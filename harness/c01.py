"""C01 — SP yields identity only from responses signed as its policy requires."""
import ast
import copy
import json
import os
import random
import re

from harness import common, env, render, spaccept, world
from harness.common import Raw, cq

PID = "C01"
PARALLEL = 12
IMPORTS = "From Verif Require Import C01.Model C01.Spec C01.Corr."
CASE_TYPE = "C01.Corr.case"
RUNNER = "C01.Corr.run"
FINDING_CLASSES = {}
RULE = ("one case = one Saml2Client (one configuration) consuming a sequence of messages (each a Response with a list of "
        "assertions); per message: identity or not.  "
        "(A) single-message truth table: 3 options x {unset, True, False, 'true'} (64) x Response signature {absent, "
        "valid, corrupted, untrusted key} x assertion signature (same 4) x {plain, encrypted} x binding {POST, Redirect, "
        "SOAP, PAOS} = 8192 cells; quick = all 1024 POST/plain cells + 1000 seeded cells of the rest, thorough = all 8192.  "
        "(B) choice of verification keys: only_use_keys_in_metadata {unset, True, False} x signed element {Response, "
        "assertion} x Issuer of the Response {IdP, other member, entity without metadata, none} x Issuer of the assertion "
        "(same 4) x signing key {idp, idp2, idpenc (encryption only), other, sp, attacker} x KeyInfo {none, signer's "
        "certificate, the IdP's certificate} = 1728 cells, complete in both tiers (thorough: under 2 option settings each, "
        "plus both elements signed), run as sequences of 24 messages on one SP.  (C) replay/forgery sequences on one "
        "long-lived SP: 10 option settings x signed element {Response, assertion, both} x {plain, encrypted} x 5 orders of "
        "{genuine, same ID and verbatim ds:Signature around rewritten content, SignatureValue flip, untrusted key with "
        "KeyInfo}.  (D) seeded random sequences (quick 120, thorough 2000; 6-12 messages) over the full product of all "
        "dimensions incl. 5 ways of corrupting (SignatureValue, DigestValue, NameID, attribute value, Response envelope / "
        "content inside the signed assertion), message content drawn from a pool of 2 per sequence so that IDs and "
        "signatures collide.  (E) shape of the ds:Signature (round 3): per signature the list of Reference targets {own ID, "
        "ANOTHER element of the same type parked in the document (Advice / Extensions / StatusDetail: signature wrapping), "
        "whole document (URI=''), no URI attribute, xpointer to own ID, '#', dangling ID, external URI; pairs of them} x "
        "CanonicalizationMethod {exc-c14n, #WithComments, inclusive} x Transform list (14 lists of length 0-3 over "
        "{enveloped, exc-c14n, #WithComments, inclusive}) x ds:Object x second ds:Signature child {none, before, after}: "
        "quick = every one-dimension deviation from the standard form + the pairs around wrapping (49 shapes) x signed "
        "element {Response, assertion} x 3 option settings (assertion: plain and encrypted) + under the KeyInfo opt-out; "
        "thorough = full product (3276 shapes x 2 elements); (D) draws a random shape for 25% of its signatures.  "
        "(F) how the options reach the client (round 4): class of the configuration object {SPConfig, IdPConfig, Config} x "
        "Config.context assigned before the client is built {left alone, 'sp', 'idp', 'aa', ''} | config_factory(type, dict) "
        "for type in {'sp', 'idp', 'aa', ''} | Saml2Client(config_file=<path of a module with CONFIG>) | "
        "Saml2Client(config_file=<dict>), each with and without a service/idp section next to service/sp, x the three options "
        "as WRITTEN {absent, True, False, the texts 'true' 'True' 'yes' '1' ' ON ' / 'false' 'FALSE' 'no' '0' ' false ' '' 'off' "
        "/ the unreadable 'maybe'} both in service/sp and through Config.setattr('sp', name, value) on the loaded object "
        "(following fix 6bdc97cd: a text is read by what it says, an unreadable word -> the client cannot be built -> no "
        "identity): quick = every surface (24) x 5 option settings (2 whose effect differs observably from the "
        "defaults + 2 rotating through all 27 (unset/True/False)^3 + 1 with an unreadable word; spellings taken in turn), "
        "thorough = every surface with and without service/idp x all 27 x 2 spellings + 2 unreadable; per client a sequence of the 4 probes {unsigned, Response signed, "
        "assertion signed, both} (plain/encrypted, bindings drawn) + 2 random messages.  "
        "(G) the LIST of assertions of a Response (round 5): every document order of plain / encrypted assertions up to 4 "
        "(thorough 5), i.e. also none, several plain and several encrypted ones (parse_assertion admits exactly one plain or "
        "exactly one encrypted assertion; xmlsec1 and the stand-in open ONE EncryptedData per --decrypt call, so a Response "
        "with n EncryptedAssertions takes n decryption rounds); for every admitted arrangement the baseline (all validly "
        "signed by the IdP) and one assertion at a time, at EVERY position, without signature / with SignatureValue edit / "
        "signed by an untrusted key, and (in turn; thorough: all) DigestValue / NameID / attribute edit, untrusted key "
        "shipping its certificate, rotated key, encryption-only key, another member's key; a pair of deviations; one "
        "assertion naming another Issuer (other member, entity without metadata, none); the other arrangements with the "
        "baseline; each under one of 8 option settings in turn (thorough: all 8 up to 3 assertions) with a Response "
        "signature that mostly satisfies it and, for lists of two and more, is mostly present (since /repo fix 6a3bb24f several "
        "assertions are taken only under a signature of the Response; some lists come without, for the repaired number "
        "rule), bindings drawn; + random lists (quick 60, thorough 1000) over the full product "
        "incl. only_use_keys_in_metadata; run as sequences of 4 messages on one SP.  "
        "(H) which ds:Signature the engine verifies versus which one the library inspects (round 6): a DESCENDANT of the signed "
        "element carries a complete ds:Signature of its own - a signed assertion parked in the assertion's saml:Advice / "
        "SubjectConfirmationData / an AttributeValue, in the Response's samlp:Extensions / StatusDetail, or the Response's own "
        "signed assertion - made by {IdP, IdP then edited, untrusted key, another member, rotated key} x it comes AHEAD of the "
        "element's Signature child in document order (the child is then the last child instead of standing after Issuer) or "
        "after it x the element's own signature {by the IdP, SignatureValue / content edited, untrusted key with and without "
        "KeyInfo, rotated key} x signed element {assertion, Response} x 4 option settings x {plain, encrypted}: quick = "
        "complete for assertion + ahead, the usual own / descendant signatures complete elsewhere, the rest in turn.  "
        "(I) which private keys open the EncryptedAssertion (round 6): recipient of the encryption {configured key, key pair "
        "of this request, another per-request key pair, a foreign key} x outstanding_certs argument of "
        "parse_authn_request_response {not given, {}, entry under another request id (dict / list), entry of this request "
        "with the request key (dict / one-element list / list with another key first) / with the other per-request key / "
        "with the configured key} x signatures {none, Response, assertion, both; some edited / by an untrusted key} x 6 "
        "option settings in turn (forced pass succeeds | fails and the retry decides | unsigned assertion refused); plain "
        "messages with every outstanding_certs; Responses with 2-3 assertions, plain next to encrypted, under 7 (recipient, "
        "outstanding_certs) pairs; sequences of 6 on one SP.  "
        "Signature states are real: RSA through the xmlsec1 stand-in, corruption by byte edits.  "
        "non-trivial = distinct (configuration, abstract message sequence) other than (defaults, Valid, Absent, plain, POST)")
TRUSTED = ["xmlsec1 stand-in (sign/verify/encrypt/decrypt; --decrypt opens the first EncryptedData only, like xmlsec1)",
           "renderer harness/render.py",
           "harness/c01.py:build_shaped for shape x='in' (round 6): the descendant (assertion a-9 / a-8 for subject-0) is signed "
           "on its own through the stand-in before the element is; the element's Signature child is moved to the end of the "
           "element textually after signing (_move_own_signature_to_end: the enveloped-signature transform takes it out before "
           "the digest, so the signature stays as good as it was)",
           "harness/c01.py:observe_with_certs / outstanding_certs (round 6; local twin of spaccept.observe with the "
           "outstanding_certs argument: PEM texts of harness/fixtures key pairs spenc2 = the request's, other = another "
           "per-request pair, attacker = foreign)",
           "harness/c01.py:build_multi / encrypt_child / corrupt_assertion (Responses with several assertions: each assertion "
           "signed, edited and encrypted on its own through the stand-in; the abstract flags of a case say what was done)",
           "translator harness/c01.py:regenerate_tables (AST of client_base.Base.__init__ attribute_defaults and of "
           "config.Config.__init__ only_use_keys_in_metadata)",
           "memo of saml2.cryptography.asymmetric.load_pem_private_key by PEM bytes (fresh SP per sequence; as the stand-in does)",
           "translator v2 harness/py2coq2.py + coq/theories/Base/Py2.v (source text -> Gallina, fail-closed; not modelled: "
           "aliasing of mutable objects, set order, Unicode case mapping, generators' laziness), used by "
           "harness/c01.py:regenerate_tables for sigver.py:SecurityContext.correctly_signed_response, "
           "response.py:AuthnResponse._assertion, response.py:AuthnResponse.__init__, client_base.py:Base.__init__ "
           "(coq/gen/C01Src2.v) and, after the three syntactic rewrites of harness/c01.py:_Desugar (try/finally with "
           "attribute-restoring finally blocks and no return/break/continue inside -> except BaseException: F; raise + F; "
           "f(.., **kwargs) -> f(.., kwargs); the logging-only `if \"..\" in f\"{err}\"` inside a handler dropped), for "
           "entity.py:Entity._parse_response and client_base.py:Base.parse_authn_request_response (coq/gen/C01Src2p.v); "
           "and, after the three rewrites of harness/c01.py:_DesugarPA (the bytes-vs-str block after a decryption round dropped - "
           "both texts are str, read off CryptoBackendXmlSec1.decrypt / SecurityContext.decrypt_keys by check_decrypt_returns_str -; "
           "the body of `if tmp_ass.advice and tmp_ass.advice.encrypted_assertion:` cut out (raise AdviceNotTied; C04's business); "
           "name.attr.attr2 = E split into three assignments), for response.py:AuthnResponse.parse_assertion "
           "(coq/gen/C01Src2a.v; `while` = recursion on fuel), run in C01/Source2pa.v with the engine functions ext_* there "
           "(decrypt_keys opens ONE EncryptedData per call) on every list of <= 3 assertions and on the lists of <= 5 over a "
           "reduced alphabet; "
           "theorems c01_source2_*; the translation specs (external calls as extra arguments; exception class parents "
           "EXC_PARENTS, compared with the live classes on every run); in C01/Source2.v: the encodings, the functions ext_* "
           "standing for the external calls in the theorems proved by evaluation, and Python's keyword binding "
           "(call_parse_response, call_authn_response_init)"]
ASSUMPTIONS = ["everything but the signatures and the Issuer elements is valid (status, times, audience, InResponseTo)",
               "RSA/AES behave ideally (real RSA is executed; the model treats verification as a boolean)",
               "federation facts of harness/world.py (the IdP publishes idp and idp2 for signing and idpenc for encryption "
               "only, the other member publishes other) are restated in Model.md_certs / Spec.md_trusts; generate() asserts them",
               "the identity cache Saml2Client.users is emptied before every message of a sequence so that each message's "
               "identity can be told apart; everything else of the SP lives on",
               "spellings of an option value (round 4, after fix 6bdc97cd): booleans and ASCII texts (TRUE_TEXTS, FALSE_TEXTS, "
               "BAD_TEXTS) in service/sp of the dict and through Config.setattr('sp', ..) on the loaded object; NOT generated: "
               "non-ASCII texts (Unicode blanks / case mapping are not modelled), values that are neither bool nor str, options "
               "assigned after the client was built; only_use_keys_in_metadata keeps the spellings of round 1 (it is not read "
               "by Base.__init__)",
               "several assertions in one Response (round 5): all assertions speak of the same subject and are otherwise "
               "valid, IDs are distinct (a-1, a-2, ..), every EncryptedAssertion holds one EncryptedData with its own Id, "
               "encrypted for the receiver, signatures in the standard form; NOT generated: an EncryptedAssertion for "
               "another recipient, EncryptedID inside an assertion, assertions inside saml:Advice (C04), duplicate IDs, "
               "more than 5 assertions",
               "round 6: all EncryptedAssertions of one Response are made for the SAME certificate (one recipient per message); "
               "a per-request key pair reaches the SP only through outstanding_certs[InResponseTo] (entry = dict or list of "
               "dicts with 'key' and 'cert'); NOT generated: EncryptedAssertions for different recipients inside one Response "
               "(nothing behind the first sealed EncryptedData is opened), an entry without 'key', keys given as bytes; "
               "the descendant that carries a signature of its own is an assertion for another subject by the same Issuer, its "
               "signature in the standard form; NOT generated: several such descendants, a descendant inside an encrypted "
               "Advice, a Signature child in the middle of the element (only: usual place / last child)"]

OPTV = ["unset", True, False, "true"]
SIGST = ["Absent", "Valid", "Corrupt", "Untrusted"]
BINDS = ["POST", "Redirect", "SOAP", "PAOS"]
BIND_URI = {"POST": world.BINDING_HTTP_POST, "Redirect": world.BINDING_HTTP_REDIRECT, "SOAP": world.BINDING_SOAP,
            "PAOS": world.BINDING_PAOS}


def _init_of(path, cls):
    with open(path) as f:
        tree = ast.parse(f.read())
    for node in ast.walk(tree):
        if isinstance(node, ast.ClassDef) and node.name == cls:
            for fn in node.body:
                if isinstance(fn, ast.FunctionDef) and fn.name == "__init__":
                    return fn
    raise RuntimeError("%s.__init__ not found in %s" % (cls, path))


def regenerate_tables(ctx):
    """attribute_defaults of client_base.Base.__init__ and the default of only_use_keys_in_metadata in
    config.Config.__init__, read from the live source by AST (fail closed)."""
    found = None
    for st in ast.walk(_init_of(os.path.join(env.SRC, "saml2", "client_base.py"), "Base")):
        if isinstance(st, ast.Assign) and len(st.targets) == 1 and \
                isinstance(st.targets[0], ast.Name) and st.targets[0].id == "attribute_defaults":
            found = ast.literal_eval(st.value)
    if not isinstance(found, dict):
        raise RuntimeError("attribute_defaults not found in client_base.Base.__init__")
    want = ["want_response_signed", "want_assertions_signed", "want_assertions_or_response_signed"]
    lines = ["(* GENERATED by harness/c01.py from saml2/client_base.py (Base.__init__ attribute_defaults) and "
             "saml2/config.py (Config.__init__) — do not edit *)"]
    for k in want:
        if k not in found or not isinstance(found[k], bool):
            raise RuntimeError("attribute_defaults[%s] missing or not a bool" % k)
        lines.append("Definition %s_default : bool := %s." % (k, "true" if found[k] else "false"))
    only = []
    for st in ast.walk(_init_of(os.path.join(env.SRC, "saml2", "config.py"), "Config")):
        if isinstance(st, ast.Assign) and len(st.targets) == 1 and isinstance(st.targets[0], ast.Attribute) and \
                isinstance(st.targets[0].value, ast.Name) and st.targets[0].value.id == "self" and \
                st.targets[0].attr == "only_use_keys_in_metadata":
            only.append(ast.literal_eval(st.value))
    if len(only) != 1 or not isinstance(only[0], bool):
        raise RuntimeError("Config.__init__: self.only_use_keys_in_metadata = <bool> not found exactly once")
    lines.append("Definition only_use_keys_in_metadata_default : bool := %s." % ("true" if only[0] else "false"))
    defaults = {k: found[k] for k in want}
    defaults["only_use_keys_in_metadata"] = only[0]
    changed = common.write_if_changed(os.path.join(common.GEN, "C01Tables.v"), "\n".join(lines) + "\n")
    info = {"file": "coq/gen/C01Tables.v", "defaults": defaults, "changed": changed, "obligations": 1, "discharged": 1}
    # translator v2: the decision functions of the anchored code as they read NOW
    from harness import py2coq2

    src2 = py2coq2.regenerate(os.path.join(common.GEN, "C01Src2.v"), source2_items())
    src2p = regenerate_desugared(os.path.join(common.GEN, "C01Src2p.v"))
    src2a = regenerate_parse_assertion(os.path.join(common.GEN, "C01Src2a.v"))
    info["changed"] = bool(changed or src2["changed"] or src2p["changed"] or src2a["changed"])
    info["obligations"] += src2["obligations"] + src2p["obligations"] + src2a["obligations"]
    info["discharged"] += src2["discharged"] + src2p["discharged"] + src2a["discharged"]
    info["untranslatable"] = list(src2["untranslatable"]) + list(src2p["untranslatable"]) + list(src2a["untranslatable"])
    info["files"] = ["coq/gen/C01Tables.v", "coq/gen/C01Src2.v", "coq/gen/C01Src2p.v", "coq/gen/C01Src2a.v"]
    info["source2"] = {"C01Src2.v": src2, "C01Src2p.v": src2p, "C01Src2a.v": src2a}
    info["functions"] = SOURCE2_FUNCTIONS
    info["source_theorems"] = ["c01_source2_* (C01/Property.v, proofs in C01/Source2.v): each translated function applied to "
                               "the encoded model input equals the encoded output of the model function it mirrors"]
    return info


# ---------------------------------------------------------------------------- translator v2 (source tie)
SOURCE2_FUNCTIONS = ["sigver.py:SecurityContext.correctly_signed_response", "response.py:AuthnResponse._assertion",
                     "response.py:AuthnResponse.__init__", "client_base.py:Base.__init__",
                     "entity.py:Entity._parse_response (desugared)", "client_base.py:Base.parse_authn_request_response (desugared)",
                     "response.py:AuthnResponse.parse_assertion (desugared; while loops on fuel)"]
EXC_PARENTS = {"SAMLError": ["Exception"], "SigverError": ["SAMLError", "Exception"],
               "SignatureError": ["SigverError", "SAMLError", "Exception"],
               "MissingKey": ["SigverError", "SAMLError", "Exception"], "VerificationError": ["SAMLError", "Exception"],
               "UnsolicitedResponse": ["SAMLError", "Exception"], "StatusError": ["SAMLError", "Exception"],
               "UnknownBinding": ["SAMLError", "Exception"], "UnravelError": ["Exception"]}
LOGGING = ["logger.debug", "logger.info", "logger.error", "logger.exception", "logger.warning", "_warn"]


def check_exc_parents():
    """EXC_PARENTS restates the class hierarchy of the live code (what `except SigverError` catches depends on it)."""
    import saml2
    import saml2.response
    import saml2.sigver
    import saml2.entity

    live = {"SAMLError": saml2.SAMLError, "SigverError": saml2.sigver.SigverError, "SignatureError": saml2.sigver.SignatureError,
            "MissingKey": saml2.sigver.MissingKey, "VerificationError": saml2.response.VerificationError,
            "UnsolicitedResponse": saml2.response.UnsolicitedResponse, "StatusError": saml2.response.StatusError,
            "UnknownBinding": saml2.entity.UnknownBinding, "UnravelError": saml2.entity.UnravelError}
    for name, cls in live.items():
        got = [c.__name__ for c in cls.__mro__[1:] if c.__name__ in EXC_PARENTS or c.__name__ == "Exception"]
        if got != EXC_PARENTS[name]:
            raise RuntimeError("exception hierarchy of the live code differs from harness/c01.py:EXC_PARENTS: %s has %r" % (name, got))


def _kw(name, expected, a, n, kw):
    from harness import py2coq2

    if len(a) != n or sorted(kw) != sorted(expected):
        raise py2coq2.Untranslatable("%s: %d positional and keyword arguments %s, expected %d and %s" % (
            name, len(a), sorted(kw), n, sorted(expected)))


def _call_status_response_init(a, kw):
    _kw("StatusResponse.__init__", ["asynchop", "conv_info"], a, 4, kw)
    return "(status_response_init (PList [%s]))" % "; ".join(list(a) + [kw["asynchop"], kw["conv_info"]])


def _call_entity_init(a, kw):
    _kw("Entity.__init__", ["msg_cb"], a, 5, kw)
    return "(entity_init (PList [%s]))" % "; ".join(list(a) + [kw["msg_cb"]])


def _call_endpoint(a, kw):
    _kw("self.config.endpoint", ["binding", "context"], a, 1, kw)
    return "(endpoint v_self %s %s %s)" % (a[0], kw["binding"], kw["context"])


def _call_loads(a, kw):
    _kw("response.loads", ["origxml"], a, 2, kw)
    return "(loads v_response %s %s %s)" % (a[0], a[1], kw["origxml"])


def _call_service_urls(a, kw):
    _kw("self.service_urls", ["binding"], a, 0, kw)
    return "(service_urls v_self %s)" % kw["binding"]


def source2_items():
    """(source file, qualified name, translation spec) of the functions that C01/Source2.v proves equal to the model.
    External calls (XML parsing, _check_signature, the other checks of an assertion, object construction, configuration
    lookups) are extra parameters of the Gallina definitions."""
    sdir = os.path.join(env.SRC, "saml2")
    sig_, rsp, cb = (os.path.join(sdir, f) for f in ("sigver.py", "response.py", "client_base.py"))
    return [
        (sig_, "SecurityContext.correctly_signed_response", {
            "name": "src2_correctly_signed_response",
            "params": ["self", "decoded_xml", "must", "origdoc", "only_valid_cert", "require_response_signature", "kwargs"],
            "extra_params": [("parse_resp", "pyval -> pyval"), ("check_sig", "pyval -> pyval -> pyval -> pyval -> pyval"),
                             ("class_name_ext", "pyval -> pyval")],
            "exc_parents": EXC_PARENTS,
            "calls": {"samlp.any_response_from_string": lambda a: "(parse_resp %s)" % a[0],
                      "self._check_signature": lambda a: "(check_sig %s %s %s %s)" % tuple(a),
                      "class_name": lambda a: "(class_name_ext %s)" % a[0]}}),
        (rsp, "AuthnResponse._assertion", {
            "name": "src2_assertion", "params": ["self", "assertion", "verified"],
            "extra_params": [("check_sig3", "pyval -> pyval -> pyval -> pyval"), ("class_name_ext", "pyval -> pyval"),
                             ("issuer_ext", "pyval -> pyval"), ("authn_statement_ok_ext", "pyval -> pyval"),
                             ("condition_ok_ext", "pyval -> pyval"), ("get_subject_ext", "pyval -> pyval")],
            "exc_parents": EXC_PARENTS, "ignore_calls": LOGGING,
            "calls": {"self.sec.check_signature": lambda a: "(check_sig3 %s %s %s)" % tuple(a),
                      "class_name": lambda a: "(class_name_ext %s)" % a[0],
                      "self.issuer": lambda a: "(issuer_ext v_self)",
                      "self.authn_statement_ok": lambda a: "(authn_statement_ok_ext v_self)",
                      "self.condition_ok": lambda a: "(condition_ok_ext v_self)",
                      "self.get_subject": lambda a: "(get_subject_ext v_self)"}}),
        (rsp, "AuthnResponse.__init__", {
            "name": "src2_authn_response_init",
            "params": ["self", "sec_context", "attribute_converters", "entity_id", "return_addrs", "outstanding_queries",
                       "timeslack", "asynchop", "allow_unsolicited", "test", "allow_unknown_attributes",
                       "want_assertions_signed", "want_assertions_or_response_signed", "want_response_signed", "conv_info", "kwargs"],
            "extra_params": [("status_response_init", "pyval -> pyval")], "returns_state": ["self"],
            "calls": {"StatusResponse.__init__": _call_status_response_init}}),
        (cb, "Base.__init__", {
            "name": "src2_base_init",
            "params": ["self", "config", "identity_cache", "state_cache", "virtual_organization", "config_file", "msg_cb"],
            "extra_params": [("entity_init", "pyval -> pyval"), ("population", "pyval -> pyval"), ("lock", "pyval"),
                             ("cfg_getattr", "pyval -> pyval -> pyval -> pyval")],
            "returns_state": ["self"], "ignore_calls": LOGGING, "exc_parents": EXC_PARENTS,
            # the message of the SAMLError for an unreadable word is an f-string with {val!r}: evaluated for its
            # text only (repr of a str cannot raise), the translator drops the arguments of a raise anyway
            "lenient_raise_args": True,
            "calls": {"Entity.__init__": _call_entity_init, "Population": lambda a: "(population %s)" % a[0],
                      "threading.Lock": lambda a: "lock",
                      "self.config.getattr": lambda a: "(cfg_getattr v_self %s %s)" % tuple(a)}}),
    ]


class _Desugar(ast.NodeTransformer):
    """Three syntactic rewrites that bring Entity._parse_response and Base.parse_authn_request_response into the
    subset of py2coq2 (each applies only to the exact shape described; anything else is left alone and then refused
    by the translator: fail-closed).
    (1) try B except.. else E finally F, with F a list of `name.attr = name` assignments and no return / break /
        continue anywhere in B, the handlers and E  ==>  try: (try B except.. else E) except BaseException: F; raise
        followed by F.
    (2) f(args, **name)  ==>  f(args, name): the dict travels as one more positional argument of the external call.
    (3) inside `except ... as e`, a statement `if "<const>" in f"{e}": <logger calls only>` is dropped (logging)."""

    def visit_Try(self, node):
        self.generic_visit(node)
        if not node.finalbody:
            return node
        ok_final = all(isinstance(s, ast.Assign) and len(s.targets) == 1 and isinstance(s.targets[0], ast.Attribute)
                       and isinstance(s.targets[0].value, ast.Name) and isinstance(s.value, ast.Name) for s in node.finalbody)
        jumps = [n for part in (node.body, node.handlers, node.orelse) for s in part for n in ast.walk(s)
                 if isinstance(n, (ast.Return, ast.Break, ast.Continue))]
        if not ok_final or jumps:
            return node
        inner = ast.Try(body=node.body, handlers=node.handlers, orelse=node.orelse, finalbody=[])
        outer = ast.Try(body=[inner], handlers=[ast.ExceptHandler(
            type=ast.Name(id="BaseException", ctx=ast.Load()), name=None,
            body=copy.deepcopy(node.finalbody) + [ast.Raise(exc=None, cause=None)])], orelse=[], finalbody=[])
        return [ast.copy_location(outer, node)] + node.finalbody

    def visit_Call(self, node):
        self.generic_visit(node)
        star = [k for k in node.keywords if k.arg is None]
        if len(star) == 1 and node.keywords[-1] is star[0] and isinstance(star[0].value, ast.Name) and \
                not any(isinstance(a, ast.Starred) for a in node.args):
            node.args = node.args + [star[0].value]
            node.keywords = node.keywords[:-1]
        return node

    def visit_ExceptHandler(self, node):
        self.generic_visit(node)
        if not node.name:
            return node
        from harness import py2coq2

        def log_only_if(s):
            return (isinstance(s, ast.If) and not s.orelse and isinstance(s.test, ast.Compare) and len(s.test.ops) == 1
                    and isinstance(s.test.ops[0], ast.In) and isinstance(s.test.left, ast.Constant)
                    and isinstance(s.test.left.value, str) and isinstance(s.test.comparators[0], ast.JoinedStr)
                    and all(isinstance(v, ast.FormattedValue) and isinstance(v.value, ast.Name) and v.value.id == node.name
                            and v.conversion == -1 and v.format_spec is None for v in s.test.comparators[0].values)
                    and all(isinstance(b, ast.Expr) and isinstance(b.value, ast.Call)
                            and py2coq2._dotted(b.value.func) in LOGGING for b in s.body))
        node.body = [s for s in node.body if not log_only_if(s)] or [ast.Pass()]
        return node


BIND = {"POST": world.BINDING_HTTP_POST, "Redirect": world.BINDING_HTTP_REDIRECT, "SOAP": world.BINDING_SOAP, "PAOS": world.BINDING_PAOS}


def desugared_items():
    sdir = os.path.join(env.SRC, "saml2")
    return [
        (os.path.join(sdir, "entity.py"), "Entity._parse_response", {
            "name": "src2_parse_response",
            "params": ["self", "xmlstr", "response_cls", "service", "binding", "outstanding_certs", "kwargs"],
            "extra_params": [("endpoint", "pyval -> pyval -> pyval -> pyval -> pyval"), ("mk_response", "pyval -> pyval -> pyval -> pyval"),
                             ("unravel", "pyval -> pyval -> pyval -> pyval -> pyval"),
                             ("loads", "pyval -> pyval -> pyval -> pyval -> pyval"), ("verify", "pyval -> pyval -> pyval")],
            "exc_parents": EXC_PARENTS, "ignore_calls": LOGGING,
            "globals": {"BINDING_SOAP": "(PStr %s)" % cq(BIND["SOAP"]), "BINDING_PAOS": "(PStr %s)" % cq(BIND["PAOS"]),
                        "BINDING_HTTP_REDIRECT": "(PStr %s)" % cq(BIND["Redirect"]), "BINDING_HTTP_POST": "(PStr %s)" % cq(BIND["POST"])},
            "calls": {"self.config.endpoint": _call_endpoint,
                      "response_cls": lambda a: "(mk_response v_response_cls %s %s)" % tuple(a),
                      "self.unravel": lambda a: "(unravel v_self %s %s %s)" % tuple(a),
                      "response.loads": _call_loads,
                      "response.verify": lambda a: "(verify v_response %s)" % a[0]}}),
        (os.path.join(sdir, "client_base.py"), "Base.parse_authn_request_response", {
            "name": "src2_parse_authn_request_response",
            "params": ["self", "xmlstr", "binding", "outstanding", "outstanding_certs", "conv_info"],
            "extra_params": [("service_urls", "pyval -> pyval -> pyval"),
                             ("parse_response_ext", "pyval -> pyval -> pyval -> pyval -> pyval -> pyval -> pyval"),
                             ("add_info", "pyval -> pyval -> pyval"), ("session_info", "pyval -> pyval")],
            "exc_parents": EXC_PARENTS, "ignore_calls": LOGGING,
            "globals": {"AuthnResponse": '(PObj [("__class__", PStr "type"); ("msgtype", PStr "authn_response")])'},
            "classes": {"AuthnResponse": ["AuthnResponse"]},
            "calls": {"self.service_urls": _call_service_urls,
                      "self._parse_response": lambda a: "(parse_response_ext v_self %s %s %s %s %s)" % tuple(a),
                      "self.users.add_information_about_person": lambda a: "(add_info v_self %s)" % a[0],
                      "resp.session_info": lambda a: "(session_info v_resp)"}}),
    ]


def regenerate_desugared(gen_path):
    """Entity._parse_response and Base.parse_authn_request_response -> coq/gen/C01Src2p.v, through
    py2coq2.translate_def after _Desugar (fail-closed like py2coq2.regenerate: what cannot be translated becomes a
    poisoned definition)."""
    from harness import py2coq2

    out, failed, names = [py2coq2.HEADER], [], []
    for path, q, spec in desugared_items():
        names.append(q)
        try:
            with open(path) as f:
                fn = py2coq2.find_function(ast.parse(f.read()), q)
            fn = ast.fix_missing_locations(_Desugar().visit(fn))
            out.append(py2coq2.translate_def(fn, spec, "%s:%s (try/finally, f(.., **kwargs) and the logging-only test on the "
                                                       "exception text rewritten by harness/c01.py:_Desugar)" % (path.split("/src/")[-1], q)))
        except (py2coq2.Untranslatable, OSError, SyntaxError) as e:
            failed.append("%s: %s" % (q, e))
            out.append(py2coq2.poison(q, spec, str(e)))
    changed = common.write_if_changed(gen_path, "\n".join(out))
    return {"translated": names, "untranslatable": failed, "changed": changed, "obligations": len(names),
            "discharged": len(names) - len(failed)}


class _DesugarPA(ast.NodeTransformer):
    """Three syntactic rewrites that bring AuthnResponse.parse_assertion into the subset of py2coq2 (each applies only to
    the exact shape described; anything else is left alone and then refused by the translator: fail-closed).
    (1) `if type(A) != type(B): if isinstance(A, bytes): A = A.decode("utf-8") else: A = A.encode("utf-8")` is dropped:
        both texts are str here (str(self.response) and what SecurityContext.decrypt_keys returns:
        check_decrypt_returns_str reads that off the live source), so the test is False.
    (2) the body of `if tmp_ass.advice and tmp_ass.advice.encrypted_assertion:` (EncryptedAssertions inside saml:Advice,
        mutations through tmp_ass.advice.*: the business of C04) becomes `raise AdviceNotTied`: the tie covers
        assertions without such Advice, where the test is false; the test itself is translated.
    (3) `name.attr.attr2 = E` ==> `name_attr = name.attr; name_attr.attr2 = E; name.attr = name_attr` (the translator
        mutates through a name or name.attr only; no aliasing is modelled, as everywhere in v2)."""

    def visit_If(self, node):
        self.generic_visit(node)
        t = ast.unparse(node.test)
        m = re.fullmatch(r"type\((\w+)\) != type\((\w+)\)", t)
        if m:
            a = m.group(1)
            want = 'if isinstance(%s, bytes):\n    %s = %s.decode("utf-8")\nelse:\n    %s = %s.encode("utf-8")' % (a, a, a, a, a)
            body = [b for b in node.body if not (isinstance(b, ast.Expr) and isinstance(b.value, ast.Constant))]
            if not node.orelse and len(body) == 1 and ast.unparse(body[0]).replace("'", '"') == want:
                return ast.Pass()
            return node
        if t == "tmp_ass.advice and tmp_ass.advice.encrypted_assertion" and not node.orelse:
            node.body = [ast.Raise(exc=ast.Name(id="AdviceNotTied", ctx=ast.Load()), cause=None)]
        return node

    def visit_Assign(self, node):
        self.generic_visit(node)
        t = node.targets[0]
        if len(node.targets) == 1 and isinstance(t, ast.Attribute) and isinstance(t.value, ast.Attribute) \
                and isinstance(t.value.value, ast.Name):
            base, mid = t.value.value.id, t.value.attr
            tmp = "%s_%s" % (base, mid)
            return [ast.parse("%s = %s.%s" % (tmp, base, mid)).body[0],
                    ast.Assign(targets=[ast.Attribute(value=ast.Name(id=tmp, ctx=ast.Load()), attr=t.attr, ctx=ast.Store())],
                               value=node.value),
                    ast.parse("%s.%s = %s" % (base, mid, tmp)).body[0]]
        return node


def check_decrypt_returns_str():
    """Rewrite (1) of _DesugarPA rests on: the decrypted text is a str.  CryptoBackendXmlSec1.decrypt must end with
    `return output.decode("utf-8")`, SecurityContext.decrypt_keys must return what SecurityContext.decrypt returns."""
    from harness import py2coq2

    with open(os.path.join(env.SRC, "saml2", "sigver.py")) as f:
        tree = ast.parse(f.read())
    dec = py2coq2.find_function(tree, "CryptoBackendXmlSec1.decrypt")
    last = dec.body[-1]
    if not (isinstance(last, ast.Return) and ast.unparse(last.value).replace("'", '"') == 'output.decode("utf-8")'):
        raise py2coq2.Untranslatable("CryptoBackendXmlSec1.decrypt does not end with return output.decode('utf-8')")
    dk = py2coq2.find_function(tree, "SecurityContext.decrypt_keys")
    tail = [ast.unparse(x) for x in dk.body[-2:]]
    if tail != ["dectext = self.decrypt(enctext, key_file=key_file_names)", "return dectext"]:
        raise py2coq2.Untranslatable("SecurityContext.decrypt_keys does not return self.decrypt(..): %r" % (tail,))


def _call_decrypt_assertions(a, kw):
    from harness import py2coq2

    a = list(a)
    if not 2 <= len(a) <= 3 or not set(kw) <= {"verified"} or (len(a) == 3 and kw):
        raise py2coq2.Untranslatable("self.decrypt_assertions: %d positional and keyword arguments %s" % (len(a), sorted(kw)))
    return "(decrypt_assertions v_self %s %s %s %s)" % (a[0], a[1], a[2] if len(a) == 3 else "PNone", kw.get("verified", "(PBool false)"))


def _call_decrypt_keys(a, kw):
    _kw("self.sec.decrypt_keys", ["keys"], a, 1, kw)
    return "(decrypt_keys v_self %s %s)" % (a[0], kw["keys"])


def parse_assertion_item():
    return (os.path.join(env.SRC, "saml2", "response.py"), "AuthnResponse.parse_assertion", {
        "name": "src2_parse_assertion", "params": ["self", "keys"], "returns_state": ["self"],
        "extra_params": [("fuel", "nat"), ("assertion_ext", "pyval -> pyval -> pyval -> pyval"),
                         ("find_encrypt_data", "pyval -> pyval -> pyval"), ("find_list", "pyval -> pyval -> pyval"),
                         ("decrypt_keys", "pyval -> pyval -> pyval -> pyval"), ("response_from_string", "pyval -> pyval"),
                         ("decrypt_assertions", "pyval -> pyval -> pyval -> pyval -> pyval -> pyval"),
                         ("get_identity", "pyval -> pyval"), ("str_ext", "pyval -> pyval")],
        "exc_parents": dict(EXC_PARENTS, DecryptError=["XmlsecError", "SigverError", "SAMLError", "Exception"],
                            XmlsecError=["SigverError", "SAMLError", "Exception"], InvalidAssertion=["SAMLError", "Exception"]),
        "ignore_calls": LOGGING,
        "calls": {"self._assertion": lambda a: "(assertion_ext v_self %s %s)" % tuple(a),
                  "self.find_encrypt_data": lambda a: "(find_encrypt_data v_self %s)" % a[0],
                  "self.find_encrypt_data_assertion_list": lambda a: "(find_list v_self %s)" % a[0],
                  "self.sec.decrypt_keys": _call_decrypt_keys,
                  "samlp.response_from_string": lambda a: "(response_from_string %s)" % a[0],
                  "self.decrypt_assertions": _call_decrypt_assertions,
                  "self.get_identity": lambda a: "(get_identity v_self)",
                  "str": lambda a: "(str_ext %s)" % a[0]}})


def check_pa_exc_parents():
    import saml2.response
    import saml2.sigver

    for name, cls, want in (("DecryptError", saml2.sigver.DecryptError, ["XmlsecError", "SigverError", "SAMLError", "Exception"]),
                            ("InvalidAssertion", saml2.response.InvalidAssertion, ["SAMLError", "Exception"])):
        got = [c.__name__ for c in cls.__mro__[1:] if c.__name__ in ("XmlsecError", "SigverError", "SAMLError", "Exception")]
        if got != want:
            raise RuntimeError("exception hierarchy of the live code differs from harness/c01.py:parse_assertion_item: %s has %r" % (name, got))


def regenerate_parse_assertion(gen_path):
    """AuthnResponse.parse_assertion -> coq/gen/C01Src2a.v (py2coq2.translate_def after _DesugarPA; the two `while` loops
    become recursion on the extra parameter `fuel`); fail-closed like py2coq2.regenerate."""
    from harness import py2coq2

    path, q, spec = parse_assertion_item()
    out, failed = [py2coq2.HEADER], []
    try:
        check_decrypt_returns_str()
        check_pa_exc_parents()
        with open(path) as f:
            fn = py2coq2.find_function(ast.parse(f.read()), q)
        fn = ast.fix_missing_locations(_DesugarPA().visit(fn))
        out.append(py2coq2.translate_def(fn, spec, "%s:%s (the bytes/str block dropped, the saml:Advice block cut out, nested attribute "
                                                   "assignments split by harness/c01.py:_DesugarPA)" % (path.split("/src/")[-1], q)))
    except (py2coq2.Untranslatable, OSError, SyntaxError, RuntimeError) as e:
        failed.append("%s: %s" % (q, e))
        out.append(py2coq2.poison(q, spec, str(e)))
    changed = common.write_if_changed(gen_path, "\n".join(out))
    return {"translated": [q], "untranslatable": failed, "changed": changed, "obligations": 1, "discharged": 1 - len(failed)}


# ---------------------------------------------------------------------------- case format
# case  = {"tag", "cfg": {"wr","wa","wor","only"}, "fresh": bool, "steps": [step]}
# step  = legacy (round 1): {"legacy": True, "rs": SIGST, "as": SIGST, "enc", "b", "content_seed"}
#       | {"rw": WHO, "aw": WHO, "rs": sig|None, "as": sig|None, "enc", "b", "seed"}
# sig   = {"k": KEYS, "ki": KINFO, "c": None | HOW | "shape", ["sh": shape]}      (no "sh" = the standard form)
# shape = {"refs": [REF...], "c14n": C14N, "tr": [TR...], "obj": bool, "x": None|"before"|"after", "place": where ROther is parked}
WHO = ["idp", "other", "unknown", "none"]
KEYS = ["idp", "idp2", "idpenc", "other", "sp", "attacker"]
KINFO = ["none", "signer", "idp"]
HOW_A = ["sigvalue", "digest", "nameid", "attr"]                 # ways of corrupting the assertion's signature
HOW_R = ["sigvalue", "digest", "envelope", "inner"]              # ... the Response's ("inner": edit inside the assertion)
UNKNOWN_ID = "https://unknown.example.net/idp.xml"
WHO_ID = {"idp": world.IDP_ID, "other": world.OTHER_ID, "unknown": UNKNOWN_ID, "none": None}
CQ_WHO = {"idp": "WIdp", "other": "WOther", "unknown": "WUnknown", "none": "WNone"}
CQ_KEY = {"idp": "KIdp", "idp2": "KIdp2", "idpenc": "KIdpEnc", "other": "KOther", "sp": "KSp", "attacker": "KAttacker"}
CQ_KI = {"none": "KiNone", "signer": "KiSigner", "idp": "KiIdp"}
DEFAULT_CFG = {"wr": "unset", "wa": "unset", "wor": "unset", "only": "unset"}
# round 6: who can open an EncryptedAssertion.  step["rcpt"] = whose certificate the EncryptedKey is made for (absent = "sp");
# step["oc"] = the outstanding_certs argument of parse_authn_request_response (absent / None = not given)
RCPT_CERT = {"sp": "sp", "req": "spenc2", "req2": "other", "foreign": "attacker"}
CQ_RCPT = {"sp": "DConfigured", "req": "DRequest", "req2": "DRequest2", "foreign": "DForeign"}
# name -> (request id of the entry, key pairs of the entry (rcpt names), entry written as a list?)
OCERTS = {"empty": None, "else": ("req-0", ["req"], False), "this": ("req-1", ["req"], False),
          "thislist": ("req-1", ["req2", "req"], True), "this1list": ("req-1", ["req"], True),
          "thiscfg": ("req-1", ["sp"], False), "this2": ("req-1", ["req2"], False), "elselist": ("req-0", ["req", "req2"], True)}


def cell(wr, wa, wor, rs, as_, enc, b, tag):
    """A round-1 truth-table cell: a sequence of one message on the shared SP of that configuration."""
    return {"tag": tag, "cfg": {"wr": wr, "wa": wa, "wor": wor, "only": "unset"}, "fresh": False,
            "steps": [{"legacy": True, "rs": rs, "as": as_, "enc": enc, "b": b}]}


def sig(k, ki="none", c=None):
    return {"k": k, "ki": ki, "c": c}


def step(rw="idp", aw="idp", rs=None, as_=None, enc=False, b="POST", seed=0):
    return {"rw": rw, "aw": aw, "rs": rs, "as": as_, "enc": enc, "b": b, "seed": seed}


def seq(tag, cfg, steps):
    return {"tag": tag, "cfg": dict(cfg), "fresh": True, "steps": steps}


def check_world():
    """The federation facts that Model.md_certs / Spec.md_trusts restate, read off the metadata templates."""
    from harness import fixtures

    names = {fixtures.cert_b64(n): n for n in fixtures.NAMES}

    def signing(md):
        out = []
        for use, cert in re.findall(r"<md:KeyDescriptor(?: use=\"(\w+)\")?>.*?<ds:X509Certificate>([^<]+)</ds:X509Certificate>",
                                    md, flags=re.S):
            if use in ("", "signing"):
                out.append(names[cert])
        return out

    got = {"idp": signing(world.default_idp_md()), "other": signing(world.default_other_md())}
    if got != {"idp": ["idp", "idp2"], "other": ["other"]} or UNKNOWN_ID in (world.IDP_ID, world.OTHER_ID, world.SP_ID):
        raise RuntimeError("harness federation differs from the one restated in C01/Model.v: %r" % (got,))
    conf = world.sp_config()
    if len(conf["metadata"]["inline"]) != 2:
        raise RuntimeError("SP metadata is not {IdP, other member}")


# ---------------------------------------------------------------------------- generator
def gen_legacy(ctx, rng):
    cases = []
    all_cells = [(wr, wa, wor, rs, as_, enc, b) for wr in OPTV for wa in OPTV for wor in OPTV for rs in SIGST
                 for as_ in SIGST for enc in (False, True) for b in BINDS]
    first = [c for c in all_cells if c[5] is False and c[6] == "POST"]
    rest = [c for c in all_cells if not (c[5] is False and c[6] == "POST")]
    for c in first:
        cases.append(cell(*c, tag="post-plain"))
    if ctx.thorough:
        for c in rest:
            cases.append(cell(*c, tag="rest"))
    else:
        for c in rng.sample(rest, 1000):
            cases.append(cell(*c, tag="rest"))
    for i, c in enumerate(cases):
        c["steps"][0]["content_seed"] = rng.randrange(1 << 30)
    return cases


def gen_keys(ctx, rng):
    """(B) which keys verify: Issuer x signing key x KeyInfo x only_use_keys_in_metadata, complete."""
    cases = []
    cfgs = {"R": [("unset", "unset", "unset"), (False, False, "true")],
            "A": [(False, True, "unset"), (False, "unset", True)],
            "RA": [(True, True, True), ("unset", "unset", "unset")]}
    for only in ("unset", True, False):
        for elem in (("R", "A", "RA") if ctx.thorough else ("R", "A")):
            cells = [(rw, aw, k, ki) for rw in WHO for aw in WHO for k in KEYS for ki in KINFO]
            rng.shuffle(cells)
            if ctx.thorough:
                parts = [(cfgs[elem][0], cells), (cfgs[elem][1], list(reversed(cells)))]
            else:
                half = len(cells) // 2
                parts = [(cfgs[elem][0], cells[:half]), (cfgs[elem][1], cells[half:])]
            for (wr, wa, wor), part in parts:
                cfg = {"wr": wr, "wa": wa, "wor": wor, "only": only}
                for i in range(0, len(part), 24):
                    steps = []
                    for rw, aw, k, ki in part[i:i + 24]:
                        g = sig(k, ki)
                        steps.append(step(rw, aw, g if "R" in elem else None, dict(g) if "A" in elem else None,
                                          enc=rng.random() < 0.25, b="POST", seed=rng.randrange(1 << 30)))
                    cases.append(seq("keys-" + elem, cfg, steps))
    return cases


def forged(elem, enc, variant):
    """(rs.c, as.c) of a message that keeps ID and ds:Signature of the genuine one around rewritten content."""
    if elem == "A":
        return None, ("nameid", "attr")[variant % 2]
    if elem == "R":
        return ("envelope" if enc or variant % 2 else "inner"), None
    # both signed: the inner edit breaks both; the envelope edit only the Response's
    if enc or variant % 3 == 2:
        return "envelope", ("nameid", "attr")[variant % 2]
    if variant % 3 == 0:
        return "inner", "nameid"
    return "envelope", None


def gen_replay(ctx, rng):
    """(C) one long-lived SP: a genuine message and messages that re-use its IDs and signatures."""
    cases = []
    opts = [(wr, wa, wor) for wr in (True, False) for wa in (True, False) for wor in (True, False)]
    opts += [("unset", "unset", "unset"), (False, "true", "true")]
    n = 0
    for wr, wa, wor in opts:
        for elem in ("R", "A", "RA"):
            for enc in (False, True):
                for pat in ("GF", "GCUF", "FGF", "GGFG", "UGU"):
                    n += 1
                    cfg = {"wr": wr, "wa": wa, "wor": wor, "only": False if n % 7 == 0 else "unset"}
                    seed = rng.randrange(1 << 30)
                    b = ("POST", "POST", "Redirect", "SOAP")[n % 4]
                    steps = []
                    for j, ch in enumerate(pat):
                        if ch == "G":
                            rc, ac, k, ki = None, None, "idp", "none"
                        elif ch == "F":
                            (rc, ac), k, ki = forged(elem, enc, n + j), "idp", "none"
                        elif ch == "C":
                            rc, ac, k, ki = ("sigvalue" if "R" in elem else None), ("sigvalue" if elem == "A" else None), "idp", "none"
                        else:
                            rc, ac, k, ki = None, None, "attacker", "signer"
                        steps.append(step("idp", "idp", sig(k, ki, rc) if "R" in elem else None,
                                          sig(k, ki, ac) if "A" in elem else None, enc=enc, b=b, seed=seed))
                    cases.append(seq("replay-" + pat, cfg, steps))
    return cases


def random_sig(rng, hows, enc, allow_inner):
    if rng.random() < 0.3:
        return None
    k = "idp" if rng.random() < 0.4 else rng.choice(KEYS)
    c = None
    if rng.random() < 0.35:
        c = rng.choice([h for h in hows if h != "inner" or allow_inner])
    return sig(k, rng.choice(KINFO), c)


def gen_random(ctx, rng):
    """(D) random sequences over the full product; content from a pool of 2 per sequence."""
    return gen_random_n(rng, 2000 if ctx.thorough else 120)


def gen_random_n(rng, count):
    cases = []
    for _ in range(count):
        cfg = {"wr": rng.choice(OPTV), "wa": rng.choice(OPTV), "wor": rng.choice(OPTV),
               "only": rng.choice(["unset", "unset", True, False, False, "true"])}
        pool = [rng.randrange(1 << 30), rng.randrange(1 << 30)]
        steps = []
        for _ in range(rng.randint(6, 12)):
            steps.append(random_step(rng, pool))
        cases.append(seq("random", cfg, steps))
    return cases


def random_step(rng, pool):
    aw = "idp" if rng.random() < 0.5 else rng.choice(WHO)
    rw = aw if rng.random() < 0.6 else rng.choice(WHO)
    enc = rng.random() < 0.3
    as_ = random_sig(rng, HOW_A, enc, False)
    rs = random_sig(rng, HOW_R, enc, not enc and (as_ is None or as_["c"] in (None, "nameid")))
    if rs is not None and rs["c"] == "inner" and as_ is not None:
        as_["c"] = "nameid"          # the edit inside the assertion breaks its signature as well
    b = rng.choice(["POST"] * 6 + ["Redirect", "Redirect", "SOAP", "SOAP", "PAOS"])
    return step(rw, aw, rs, as_, enc, b, rng.choice(pool))


# ---------------------------------------------------------------------------- (E) shapes of ds:Signature
REFS = ["own", "other", "empty", "nouri", "xptr", "bare", "dangling", "ext"]
REF_PAIRS = [["own", "other"], ["other", "own"], ["own", "own"], ["own", "xptr"], ["other", "other"]]
C14NS = ["exc", "excwc", "inc"]
TRS = [["env", "exc"], ["env"], ["exc", "env"], ["env", "excwc"], ["excwc", "env"], ["exc"], [], ["env", "inc"], ["inc"],
       ["env", "env"], ["exc", "exc"], ["env", "exc", "exc"], ["env", "exc", "excwc"], ["inc", "env"]]
SELF_COVERING = ("own", "xptr", "empty", "nouri")
STD_SHAPE = {"refs": ["own"], "c14n": "exc", "tr": ["env", "exc"], "obj": False, "x": None}


def shape(**kw):
    d = copy.deepcopy(STD_SHAPE)
    d.update(kw)
    return d


def shapes_quick():
    """Every deviation from the standard form in ONE dimension, and the pairs in the neighbourhood of wrapping."""
    out = [shape()]
    out += [shape(refs=[t]) for t in REFS[1:]] + [shape(refs=p) for p in REF_PAIRS]
    out += [shape(c14n=c) for c in C14NS[1:]] + [shape(tr=t) for t in TRS[1:]]
    out += [shape(obj=True), shape(x="before"), shape(x="after")]
    for rf in (["other"], ["xptr"], ["empty"], ["own", "other"], ["other", "own"]):
        out += [shape(refs=rf, x="before"), shape(refs=rf, x="after")]
    out += [shape(refs=["other"], tr=t) for t in (["env"], ["exc", "env"], ["exc"], [])]
    out += [shape(refs=["other"], obj=True), shape(refs=["other"], c14n="inc"), shape(refs=["xptr"], tr=["env"]),
            shape(refs=["other"], c14n="excwc", tr=["excwc", "env"])]
    return out


def shapes_all():
    return [shape(refs=rf, c14n=c, tr=t, obj=o, x=x) for rf in [[t] for t in REFS] + REF_PAIRS for c in C14NS for t in TRS
            for o in (False, True) for x in (None, "before", "after")]


def normalise(st):
    """Make the abstract flag `corrupt` truthful for shaped signatures: what cannot be intact by construction is
    marked c="shape" (no edit is made), and edits that would not touch what the signature digests are replaced."""
    for elem, g in (("R", st["rs"]), ("A", st["as"])):
        if not g or not g.get("sh"):
            continue
        sh = g["sh"]
        if sh["x"] == "in" and sh["n"]["where"] == "assertion":
            # the descendant is the Response's own plain assertion: its signature is what the step says
            if elem != "R" or st["enc"] or not st["as"] or st["as"].get("sh") or st["as"]["c"] not in (None, "sigvalue", "digest") \
                    or not sh["n"]["ahead"]:
                raise ValueError("nested where=assertion: a Response around a plain assertion with a standard signature")
            sh["n"]["k"], sh["n"]["bad"] = st["as"]["k"], bool(st["as"]["c"])
        sh.setdefault("place", "status" if elem == "R" else "advice")
        if elem == "R" and st["enc"]:
            sh["place"] = "status"           # the assertion's Advice is not readable when the Response is verified
        covering = [t for t in sh["refs"] if t in SELF_COVERING]
        broken = any(t in ("bare", "dangling", "ext") for t in sh["refs"]) or (covering and "env" not in sh["tr"]) or \
            (elem == "A" and any(t in ("empty", "nouri") for t in sh["refs"]) and (st["enc"] or st["rs"]))
        if g["c"] in ("nameid", "attr", "inner", "envelope") and not covering:
            g["c"] = "sigvalue"
        if g["c"] == "inner":
            g["c"] = "envelope"
        if broken and not g["c"]:
            g["c"] = "shape"
    return st


def gen_shapes(ctx, rng):
    """(E) which ds:Signature shapes verify: shape x signed element x options x {plain, encrypted}."""
    shapes = shapes_all() if ctx.thorough else shapes_quick()
    cfgs = {"R": [(True, False, False), (False, False, True), (False, "unset", "unset")],
            "A": [(False, True, "unset"), (False, False, True), (False, False, False)]}
    cells = []
    for elem in ("R", "A"):
        for n, sh in enumerate(shapes):
            for j, opts in enumerate(cfgs[elem]):
                if ctx.thorough and j != n % 3:
                    continue
                for enc in ((False, True) if elem == "A" and j == 0 and not ctx.thorough else (rng.random() < 0.3,)):
                    cells.append((opts, "unset", elem, sh, enc, "idp", "none", "idp"))
            if not ctx.thorough or n % 5 == 0:
                # the documented opt-out: an issuer without metadata vouching for its own key
                cells.append(((elem == "R", elem == "A", "unset"), False, elem, sh, rng.random() < 0.3, "attacker", "signer", "unknown"))
                if ctx.thorough or n % 3 == 0:
                    cells.append(((False, False, True), False, elem, sh, False, "idp", "signer", "idp"))
    by_cfg = {}
    for opts, only, elem, sh, enc, k, ki, who in cells:
        by_cfg.setdefault((opts, only), []).append((elem, sh, enc, k, ki, who))
    cases = []
    for (opts, only), part in by_cfg.items():
        rng.shuffle(part)
        cfg = {"wr": opts[0], "wa": opts[1], "wor": opts[2], "only": only}
        for i in range(0, len(part), 24):
            steps = []
            for elem, sh, enc, k, ki, who in part[i:i + 24]:
                sh = copy.deepcopy(sh)
                sh["place"] = rng.choice(["advice", "ext"]) if elem == "A" else rng.choice(["status", "advice"])
                g = dict(sig(k, ki), sh=sh)
                if rng.random() < 0.08:
                    g["c"] = rng.choice(["sigvalue", "digest"])
                steps.append(normalise(step(who, who, g if elem == "R" else None, g if elem == "A" else None, enc=enc,
                                            b=rng.choice(["POST", "POST", "POST", "Redirect", "SOAP"]), seed=rng.randrange(1 << 30))))
            cases.append(seq("shape-" + "".join(sorted({e for e, *_ in part[i:i + 24]})), cfg, steps))
    return cases


def random_shape(rng):
    sh = shape()
    for _ in range(rng.choice([1, 1, 2, 3])):
        d = rng.randrange(5)
        if d == 0:
            sh["refs"] = rng.choice([[t] for t in REFS] + REF_PAIRS + [["other"]] * 4)
        elif d == 1:
            sh["c14n"] = rng.choice(C14NS)
        elif d == 2:
            sh["tr"] = rng.choice(TRS)
        elif d == 3:
            sh["obj"] = rng.random() < 0.5
        else:
            sh["x"] = rng.choice(["before", "after"])
    return sh


def generate(ctx):
    check_world()
    check_exc_parents()
    rng = ctx.rng
    cases = gen_legacy(ctx, rng) + gen_keys(ctx, rng) + gen_replay(ctx, rng) + gen_random(ctx, rng)
    # (E) uses its own stream so that the cases above stay the ones of the earlier rounds
    rng2 = random.Random(rng.randrange(1 << 30))
    cases = cases + gen_shapes(ctx, rng2) + gen_random_shapes(ctx, rng2)
    # (F) likewise
    rng3 = random.Random(rng.randrange(1 << 30))
    cases = cases + gen_surfaces(ctx, rng3)
    # (G) likewise; its messages are the dearest (several signatures and decryption rounds each): they go first so
    # that the fork pool of the driver does not end on them
    rng4 = random.Random(rng.randrange(1 << 30))
    # (H), (I) (round 6) likewise
    rng5 = random.Random(rng.randrange(1 << 30))
    return gen_multi(ctx, rng4) + gen_deckeys(ctx, rng5) + cases + gen_nested(ctx, rng5)


# ---------------------------------------------------------------------------- (H) signatures of descendants (round 6)
# shape["x"] == "in": no second Signature child, but a DESCENDANT of the signed element carries a complete ds:Signature of
# its own; shape["n"] = {"ahead": does it precede the element's Signature child in document order (the child is then the
# LAST child instead of standing right after Issuer), "k": key that made it, "bad": SignatureValue edited afterwards,
# "where": "advice" | "scd" (SubjectConfirmationData) | "attrval" (an AttributeValue)      - signed assertion a-9 inside the assertion
#        | "ext" (samlp:Extensions) | "status" (StatusDetail)                               - signed assertion a-8 inside the Response
#        | "assertion" (the Response's own signed plain assertion; ahead only)}
NESTED_WHERE = {"A": ["advice", "scd", "attrval"], "R": ["ext", "status", "assertion"]}


def nested_shape(ahead, k, bad, where, **kw):
    return dict(shape(x="in", **kw), n={"ahead": ahead, "k": k, "bad": bad, "where": where})


def gen_nested(ctx, rng):
    """(H) which ds:Signature the engine verifies versus which one the library inspects: signed element {assertion,
    Response} x its own signature {by the IdP, by the IdP then SignatureValue / content edited, by an untrusted key (with
    and without its certificate in KeyInfo), by the rotated key} x the descendant's signature {by the IdP, by the IdP then
    edited, by an untrusted key, by another member} x ahead of / after the element's Signature child x where the
    descendant is parked (3 places each) x options (the element's signature demanded / either-or / nothing demanded)
    x {plain, encrypted}; quick: the descendants by the IdP and by an untrusted key complete, the rest in turn."""
    owns = [sig("idp"), sig("idp", c="sigvalue"), sig("attacker"), sig("attacker", "signer"), sig("idp", c="nameid"), sig("idp2")]
    nests = [("idp", False), ("idp", True), ("attacker", False), ("other", False), ("idp2", False)]
    cfgs = {"A": [(False, True, "unset"), (False, False, True), ("unset", "unset", "unset"), (False, False, False)],
            "R": [(True, False, False), (False, False, True), ("unset", True, "unset"), (False, "unset", "unset")]}
    cells, n = [], 0
    for elem in ("A", "R"):
        for where in NESTED_WHERE[elem]:
            for ahead in (True, False):
                if where == "assertion" and not ahead:
                    continue
                for oi, own in enumerate(owns):
                    for ni, (nk, nbad) in enumerate(nests):
                        n += 1
                        # quick: complete where the descendant's signature comes first inside an assertion (the one place
                        # where the engine can resolve it); elsewhere the rarer own / descendant signatures in turn
                        if not ctx.thorough and not (elem == "A" and ahead) and (oi >= 3 or ni >= 3) and rng.random() >= 0.3:
                            continue
                        opts = cfgs[elem][0] if (n % 3 and not ctx.thorough) else cfgs[elem][n % len(cfgs[elem])]
                        g = dict(copy.deepcopy(own), sh=nested_shape(ahead, nk, nbad, where))
                        if elem == "R" and g["c"] == "nameid":
                            g["c"] = "envelope"
                        other = None
                        if where == "assertion":
                            other = sig(nk, c="sigvalue" if nbad else None)
                        elif n % 5 == 0:
                            other = sig("idp")
                        enc = elem == "A" and n % 4 == 1
                        rs_, as_ = (g, other) if elem == "R" else (other, g)
                        # a signed Response around the assertion: with the defaults the Response must be signed anyway
                        if elem == "A" and opts[0] in (True, "unset") and rs_ is None:
                            rs_ = sig("idp")
                        cells.append((opts, normalise(step("idp", "idp", rs_, as_, enc=enc,
                                                           b=rng.choice(["POST", "POST", "POST", "Redirect", "SOAP"]),
                                                           seed=rng.randrange(1 << 30)))))
    by_cfg = {}
    for opts, st_ in cells:
        by_cfg.setdefault(opts, []).append(st_)
    cases = []
    for opts, part in sorted(by_cfg.items(), key=lambda kv: repr(kv[0])):
        rng.shuffle(part)
        cfg = {"wr": opts[0], "wa": opts[1], "wor": opts[2], "only": "unset"}
        for i in range(0, len(part), 12):
            cases.append(seq("nested", cfg, part[i:i + 12]))
    return cases


# ---------------------------------------------------------------------------- (I) who can open the assertion (round 6)
DEC_CFGS = [("unset", "unset", "unset"), (False, False, True), (False, True, "unset"), (False, False, False),
            (True, "unset", True), ("unset", True, True)]


def gen_deckeys(ctx, rng):
    """(I) which private keys can open the EncryptedAssertion x which pass of _parse_response yields the identity:
    recipient of the encryption {the configured key, the key pair of this request, another per-request key pair, a
    foreign key} x outstanding_certs {not given, {}, an entry under another request id (dict / list), the entry of this
    request holding: the request key (dict / one-element list / list with another key first), the other per-request
    key, the configured key} x signatures {none, Response, assertion, both; some altered / by an untrusted key} x 6
    option settings (so that the forced pass succeeds / fails and the retry decides / the unsigned assertion is
    refused) x a few plain messages (the keys are irrelevant) x Responses with several assertions (plain next to
    encrypted ones, all EncryptedAssertions of a Response for the same certificate)."""
    rcpts = ["sp", "req", "req2", "foreign"]
    ocs = [None, "empty", "else", "elselist", "this", "this1list", "thislist", "this2", "thiscfg"]
    sigs = [(sig("idp"), None), (None, sig("idp")), (sig("idp"), sig("idp")), (None, None)]
    cells, n = [], 0
    for r in rcpts:
        for oc in ocs:
            for si, (rs_, as_) in enumerate(sigs):
                n += 1
                picks = DEC_CFGS if ctx.thorough else [DEC_CFGS[(n + k) % len(DEC_CFGS)] for k in (0, 3)]
                # the cell the property promises something for is never left out: a Response that satisfies the defaults
                if not ctx.thorough and si == 0 and DEC_CFGS[0] not in picks:
                    picks = [DEC_CFGS[0]] + picks[1:]
                for opts in picks:
                    rs2, as2 = copy.deepcopy(rs_), copy.deepcopy(as_)
                    x = rng.random()
                    if as2 and x < 0.12:
                        as2 = sig(rng.choice(["idp", "attacker"]), c=rng.choice(["sigvalue", "nameid", None]))
                    elif rs2 and x > 0.9:
                        rs2 = sig(rng.choice(["idp", "attacker"]), c=rng.choice(["sigvalue", "envelope", None]))
                    st_ = step("idp", "idp", rs2, as2, enc=True, b=rng.choice(["POST", "POST", "POST", "Redirect", "SOAP"]),
                               seed=rng.randrange(1 << 30))
                    st_["rcpt"], st_["oc"] = r, oc
                    cells.append((opts, st_))
    # plain assertions: the keys are irrelevant
    for oc in ocs[1:]:
        n += 1
        st_ = step("idp", "idp", sig("idp"), sig("idp") if n % 2 else None, enc=False, seed=rng.randrange(1 << 30))
        st_["oc"] = oc
        cells.append((DEC_CFGS[n % len(DEC_CFGS)], st_))
    # several assertions: what cannot be opened is passed over, the plain ones are walked
    lists = ["pe", "ep", "ee", "ppe", "pee", "epe"] + (["pppe", "eee", "peep"] if ctx.thorough else [])
    for a in lists:
        for r, oc in (("sp", "this"), ("req", "this"), ("req", "thislist"), ("req", None), ("foreign", "this"), ("req2", "this"), ("req", "else")):
            for states in (["V"] * len(a), None):
                n += 1
                if states is None:
                    states = [rng.choice("VVVAACU") for _ in a]
                rs_ = sig("idp") if rng.random() < 0.85 else None
                st_ = mstep("idp", rs_, [asr(k, s_) for k, s_ in zip(a, states)], rng.choice(["POST"] * 4 + ["Redirect", "SOAP"]),
                            rng.randrange(1 << 30))
                st_["rcpt"], st_["oc"] = r, oc
                cells.append((DEC_CFGS[n % 4], st_))
    by_cfg = {}
    for opts, st_ in cells:
        by_cfg.setdefault(opts, []).append(st_)
    cases = []
    for opts, part in sorted(by_cfg.items(), key=lambda kv: repr(kv[0])):
        rng.shuffle(part)
        cfg = {"wr": opts[0], "wa": opts[1], "wor": opts[2], "only": "unset"}
        for i in range(0, len(part), 6):
            cases.append(seq("deckeys", cfg, part[i:i + 6]))
    return cases


# ---------------------------------------------------------------------------- (G) several assertions in one Response
# step = {"rw": WHO, "rs": sig|None, "asl": [{"aw": WHO, "as": sig|None, "enc": bool}, ...], "b", "seed"}: the Response
# carries the assertions of "asl" in document order (round 5); such steps have no "aw" / "as" / "enc" of their own
def arrangements(max_total):
    """Every document order of p plain ('p') and e encrypted ('e') assertions, 0 <= p + e <= max_total."""
    import itertools

    out = [()]
    for n in range(1, max_total + 1):
        out += list(itertools.product("pe", repeat=n))
    return out


def asr(kind, state="V", aw="idp"):
    g = {"A": None, "V": sig("idp"), "C": sig("idp", c="sigvalue"), "D": sig("idp", c="digest"), "N": sig("idp", c="nameid"),
         "T": sig("idp", c="attr"), "U": sig("attacker"), "S": sig("attacker", "signer"), "2": sig("idp2"), "E": sig("idpenc"),
         "O": sig("other")}[state]
    return {"aw": aw, "as": g, "enc": kind == "e"}


def mstep(rw, rs, asl, b="POST", seed=0):
    return {"rw": rw, "rs": rs, "asl": asl, "b": b, "seed": seed}


MULTI_CFGS = [(False, True, "unset"), (False, False, True), ("unset", "unset", "unset"), (False, False, False),
              (True, True, False), (False, "true", True), (True, False, True), (False, "unset", "unset")]


def admitted(a):
    """parse_assertion's number rule: exactly one plain or exactly one encrypted assertion."""
    return a.count("p") == 1 or a.count("e") == 1


def gen_multi(ctx, rng):
    """(G) the list of assertions of a Response.  Arrangements = every document order of plain / encrypted assertions
    up to 4 (thorough 5).  For the arrangements the receiver admits: the baseline (every assertion validly signed by
    the IdP) and ONE assertion at a time deviating, at every position: no signature / SignatureValue edit / untrusted
    key, and (in turn; thorough: all) DigestValue / NameID / attribute edit, untrusted key shipping its certificate,
    rotated key, encryption-only key, another member's key; a pair of deviations; one assertion naming another
    Issuer (other member, entity without metadata, none).  For the others (no assertion, several plain AND several
    encrypted ones): the baseline.  Each under an option setting taken in turn (8) with a Response signature that
    mostly satisfies it; then random lists over the full product."""
    arr = arrangements(5 if ctx.thorough else 4)
    main, more = ["A", "C", "U"], ["D", "N", "T", "S", "2", "E", "O"]
    cells = []                      # (opts, only, step)
    n = 0

    def add(a, states, opts=None, only="unset", rw="idp", whos=None):
        nonlocal n
        n += 1
        picks = [opts] if opts else (MULTI_CFGS if ctx.thorough and len(a) <= 3 else [MULTI_CFGS[n % len(MULTI_CFGS)]])
        for o in picks:
            r = rng.random()
            # since /repo fix 6a3bb24f more than one assertion is taken only under a signature of the Response: most lists
            # get one (a deviation shows best where everything else is in order), some do not (the repaired number rule)
            rs = sig("idp") if ((o[0] in (True, "unset") or len(a) >= 2) and r < 0.85) or r < 0.3 else None
            if rs and rng.random() < 0.06:
                rs = sig(rng.choice(["idp", "attacker"]), c=rng.choice([None, "sigvalue", "digest", "envelope"]))
            asl = [asr(k, st_, (whos or {}).get(i, "idp")) for i, (k, st_) in enumerate(zip(a, states))]
            cells.append((o, only, mstep(rw, rs, asl, rng.choice(["POST"] * 5 + ["Redirect", "SOAP"]), rng.randrange(1 << 30))))

    for a in arr:
        base = ["V"] * len(a)
        if not admitted(a):
            add(a, base)
            continue
        add(a, base, MULTI_CFGS[0])
        add(a, base, MULTI_CFGS[2 if len(a) % 2 else 1])
        for i in range(len(a)):
            if ctx.thorough:
                devs = main + more
            elif len(a) <= 3:
                devs = main + [more[(n + i) % len(more)]]
            else:
                devs = [(main + more)[(n + i) % 10]]
            for d in devs:
                t = list(base)
                t[i] = d
                # a deviation shows best where everything else satisfies the options: assertions demanded / either-or
                add(a, t, None if ctx.thorough else MULTI_CFGS[(n + i) % 2] if d != "A" and n % 3 else None)
        # two deviations (what one check stops, the other may not)
        for _ in range(len(a) if ctx.thorough else 1):
            if len(a) >= 2:
                i, k = rng.sample(range(len(a)), 2)
                t = list(base)
                t[i], t[k] = rng.choice(main + more), rng.choice(main + more)
                add(a, t)
        # one assertion of the list names another member / an entity without metadata / nobody
        if 2 <= len(a) <= (4 if ctx.thorough else 3):
            for i in range(len(a)):
                for w in (("other", "unknown", "none") if ctx.thorough else (("other", "unknown", "none")[(n + i) % 3],)):
                    t = list(base)
                    t[i] = "O" if w == "other" else rng.choice(["V", "S", "A"])
                    add(a, t, None, False if n % 3 == 0 else "unset", rng.choice(["idp", "idp", "none", w]), {i: w})
    # random lists over the full product
    for _ in range(1000 if ctx.thorough else 60):
        k = rng.choice([0, 1, 2, 2, 3, 3, 3, 4, 4, 5])
        asl = []
        for _i in range(k):
            aw = "idp" if rng.random() < 0.9 else rng.choice(WHO)
            g = random_sig(rng, HOW_A, False, False) if rng.random() < 0.3 else (sig("idp") if rng.random() < 0.85 else None)
            asl.append({"aw": aw, "as": g, "enc": rng.random() < 0.5})
        rw = "idp" if rng.random() < 0.85 else rng.choice(WHO)
        rs = random_sig(rng, ["sigvalue", "digest", "envelope"], True, False) if rng.random() < 0.3 else (sig("idp") if rng.random() < 0.75 else None)
        opts = (rng.choice(OPTV), rng.choice(OPTV), rng.choice(OPTV))
        only = rng.choice(["unset", "unset", True, False, False, "true"])
        cells.append((opts, only, mstep(rw, rs, asl, rng.choice(["POST"] * 6 + ["Redirect", "SOAP", "PAOS"]), rng.randrange(1 << 30))))
    by_cfg = {}
    for opts, only, st_ in cells:
        by_cfg.setdefault((opts, only) if (opts in MULTI_CFGS and only in ("unset", False)) else "other", []).append((opts, only, st_))
    seqs, singles = [], []
    for key, part in sorted(by_cfg.items(), key=lambda kv: repr(kv[0])):
        rng.shuffle(part)
        if key == "other":
            # random settings: a sequence needs ONE setting, so these are sequences of one message
            for opts, only, st_ in part:
                singles.append(seq("multi", {"wr": opts[0], "wa": opts[1], "wor": opts[2], "only": only}, [st_]))
            continue
        cfg = {"wr": key[0][0], "wa": key[0][1], "wor": key[0][2], "only": key[1]}
        for i in range(0, len(part), 4):
            seqs.append(seq("multi", cfg, [st_ for _o, _y, st_ in part[i:i + 4]]))
    # short sequences, the single messages dealt in between: the driver hands the cases to its workers eight at a time
    cases = []
    while seqs or singles:
        if seqs:
            cases.append(seqs.pop())
        if singles:
            cases.append(singles.pop())
    return cases


# ---------------------------------------------------------------------------- (F) how the options reach the client
# case["surf"] = {"d": delivery, "ctx": None | "sp" | "idp" | "aa" | "", "proxy": bool, "set": [option keys set with
#                 Config.setattr("sp", ..) on the loaded object instead of being written into service/sp]}
# delivery = "obj:SPConfig" | "obj:IdPConfig" | "obj:Config"      Saml2Client(config=Class().load(dict))
#          | "fac:sp" | "fac:idp" | "fac:aa" | "fac:"             Saml2Client(config=config_factory(type, dict))
#          | "file" | "dict"                                      Saml2Client(config_file=path / dict)
# with a surface the options wr / wa / wor of case["cfg"] range over WRITTEN = unset, True, False, "true", "false"
CLASSES = ["SPConfig", "IdPConfig", "Config"]
CONTEXTS = ["sp", "idp", "aa", ""]
OPT_KEYS = ["wr", "wa", "wor"]
OPT_NAME = {"wr": "want_response_signed", "wa": "want_assertions_signed", "wor": "want_assertions_or_response_signed"}


def surfaces():
    out = [("obj:" + c, x) for c in CLASSES for x in [None] + CONTEXTS]
    out += [("fac:" + t, None) for t in CONTEXTS] + [("fac:idp", "sp"), ("fac:sp", ""), ("fac:", "idp")]
    out += [("file", None), ("dict", None)]
    return out


# texts that say a boolean / that say none (fix 6bdc97cd: read by what they say; an unreadable word -> SAMLError when
# the client is built); all of them are in Source2.all_texts
TRUE_TEXTS = ["true", "True", "yes", "1", " ON "]
FALSE_TEXTS = ["false", "FALSE", "no", "0", " false ", "", "off"]
BAD_TEXTS = ["maybe"]
_spell_turn = {}


def spell(rng, meant, can_set):
    """(value written, set on the object?) for an option the deployer means to be unset / True / False / "bad" (an
    unreadable word).  The forms are taken in turn (per meaning and delivery), the start drawn: every text is written
    both into service/sp and through Config.setattr within a few clients."""
    if meant == "unset":
        return "unset", False
    texts = {True: TRUE_TEXTS, False: FALSE_TEXTS, "bad": BAD_TEXTS}[meant]
    forms = ([(meant, False)] if meant != "bad" else []) + [(t, False) for t in texts]
    if can_set:
        forms += ([(meant, True)] if meant != "bad" else []) + [(t, True) for t in texts]
    key = (str(meant), can_set)
    if key not in _spell_turn:
        _spell_turn[key] = rng.randrange(len(forms))
    _spell_turn[key] += 1
    return forms[_spell_turn[key] % len(forms)]


def gen_surfaces(ctx, rng):
    triples = [(a, b, c) for a in ("unset", True, False) for b in ("unset", True, False) for c in ("unset", True, False)]
    # settings whose effect can be told from the defaults' (R=True, A=False): Response need not / assertion must be signed
    sensitive = [t for t in triples if t[0] is False or t[1] is True]
    rng.shuffle(triples)
    rng.shuffle(sensitive)
    _spell_turn.clear()
    cases, n = [], 0
    for i, (d, x) in enumerate(surfaces()):
        for proxy in ((False, True) if ctx.thorough else (i % 2 == 1,)):
            if ctx.thorough:
                todo = [t for t in triples for _ in (0, 1)]
            else:
                todo = [sensitive[(2 * n) % len(sensitive)], sensitive[(2 * n + 1) % len(sensitive)],
                        triples[(2 * n) % len(triples)], triples[(2 * n + 1) % len(triples)]]
            # an unreadable word at one option (in turn), the others as in the first setting: the client is not built
            bad = list(todo[0])
            bad[n % 3] = "bad"
            todo = todo + [tuple(bad)] + ([tuple("bad" if j == (n + 1) % 3 else v for j, v in enumerate(todo[1]))] if ctx.thorough else [])
            n += 1
            for t in todo:
                can_set = d not in ("file", "dict")
                cfg, setl = {}, []
                for k, meant in zip(OPT_KEYS, t):
                    cfg[k], is_set = spell(rng, meant, can_set)
                    if is_set:
                        setl.append(k)
                cfg["only"] = rng.choice(["unset", "unset", "unset", True, False, False, "true"])
                pool = [rng.randrange(1 << 30), rng.randrange(1 << 30)]
                steps = []
                for r_signed, a_signed in ((False, False), (True, False), (False, True), (True, True)):
                    steps.append(step("idp", "idp", sig("idp") if r_signed else None, sig("idp") if a_signed else None,
                                      enc=rng.random() < 0.3, b=rng.choice(["POST", "POST", "POST", "Redirect", "SOAP"]),
                                      seed=rng.choice(pool)))
                steps += [random_step(rng, pool), random_step(rng, pool)]
                rng.shuffle(steps)
                c = seq("surface-" + d.split(":")[0], cfg, steps)
                c["surf"] = {"d": d, "ctx": x, "proxy": proxy, "set": setl}
                cases.append(c)
    return cases


def gen_random_shapes(ctx, rng):
    """(D'): random sequences as in (D), 25% of the signatures in a random shape."""
    cases = []
    for c in gen_random_n(rng, 400 if ctx.thorough else 24):
        for st in c["steps"]:
            for name in ("rs", "as"):
                g = st[name]
                if g and rng.random() < 0.25:
                    g["sh"] = random_shape(rng)
                    g["sh"]["place"] = rng.choice(["advice", "ext"]) if name == "as" else rng.choice(["status", "advice"])
                    if g["c"] not in (None, "sigvalue", "digest"):
                        g["c"] = rng.choice(["sigvalue", "digest"])
            if st["rs"] and st["rs"]["c"] == "inner" and st["as"] and st["as"].get("sh"):
                st["rs"]["c"] = "envelope"
            normalise(st)
        c["tag"] = "random-shapes"
        cases.append(c)
    return cases


# ---------------------------------------------------------------------------- messages
def random_attrs(r):
    pool = ["a@example.org", "Åsa Öberg", "x" * 200, "<&>\"'", "漢字", "line1\nline2", " padded ", "𝔘𝔫𝔦"]
    n = r.randint(1, 4)
    out = []
    for i in range(n):
        out.append(("urn:oid:2.5.4.%d" % (3 + i), render.NF_URI, None, [r.choice(pool) for _ in range(r.randint(1, 3))]))
    return out


def opt_over(cfg):
    over = {}
    for k, name in (("wr", "want_response_signed"), ("wa", "want_assertions_signed"),
                    ("wor", "want_assertions_or_response_signed")):
        if cfg[k] != "unset":
            over["sp_" + name] = cfg[k]
    if cfg.get("only", "unset") != "unset":
        over["only_use_keys_in_metadata"] = cfg["only"]
    return over


def build(case):
    """Round-1 message of a legacy step (unchanged)."""
    r = random.Random(case["content_seed"])
    a = spaccept.good_assertion(attributes=random_attrs(r))
    resp = spaccept.good_response()
    if case["b"] == "Redirect":
        resp["destination"] = world.SP_ACS_REDIRECT
    akey = {"Absent": None, "Valid": "idp", "Corrupt": "idp", "Untrusted": "attacker"}[case["as"]]
    rkey = {"Absent": None, "Valid": "idp", "Corrupt": "idp", "Untrusted": "attacker"}[case["rs"]]
    if akey:
        a["sig_template"] = render.signature_template(a["id"])
    resp["assertions_xml"] = [render.assertion(a)]
    if rkey:
        resp["sig_template"] = render.signature_template(resp["id"])
    xml = render.response(resp)
    if akey:
        xml = render.sign_xml(xml, akey, render.A_ELEM, a["id"])
        if case["as"] == "Corrupt":
            if r.random() < 0.5:
                xml = render.corrupt_signature_value(xml, 0)
            else:
                xml = render.tamper_text(xml, "subject-1", "subject-2")
    if case["enc"]:
        xml = render.encrypt_assertion_in_response(xml, "sp")
    if rkey:
        xml = render.sign_xml(xml, rkey, render.R_ELEM, resp["id"])
        if case["rs"] == "Corrupt":
            if r.random() < 0.5 or case["enc"] or case["as"] == "Corrupt":
                xml = render.corrupt_signature_value(xml, 0)
            else:
                # edit content covered by the Response signature only (outside the assertion)
                xml = render.tamper_text(xml, 'InResponseTo="req-1" IssueInstant', 'InResponseTo="req-1"  IssueInstant') \
                    if 'InResponseTo="req-1" IssueInstant' in xml else render.corrupt_signature_value(xml, 0)
    return xml


def _keyinfo(g):
    return None if g["ki"] == "none" else ("x509", g["k"] if g["ki"] == "signer" else "idp")


def corrupt_digest_value(xml, which=0):
    """Change one base64 character of the which-th non-empty DigestValue."""
    ms = list(re.finditer(r"(<(?:\w+:)?DigestValue[^>]*>)([^<]+)(</)", xml))
    m = ms[which]
    v = m.group(2)
    i = len(v) // 2
    ch = "A" if v[i] != "A" else "B"
    return xml[: m.start(2)] + v[:i] + ch + v[i + 1:] + xml[m.end(2):]


def corrupt(xml, how):
    """The first filled-in signature of the document is the one under attack (the Response's once it is
    signed - it precedes the assertion -, the assertion's before that)."""
    if how == "sigvalue":
        return render.corrupt_signature_value(xml, 0)
    if how == "digest":
        return corrupt_digest_value(xml, 0)
    if how in ("nameid", "inner"):
        return render.tamper_text(xml, ">subject-1<", ">subject-2<")
    if how == "attr":
        return render.tamper_text(xml, ">a@example.org<", ">b@example.org<")
    if how == "envelope":
        return render.tamper_text(xml, ">ok</", ">OK</")
    raise ValueError(how)


# ---- shaped signatures (round 3)
ALG = {"env": render.ENVELOPED, "exc": render.EXC_C14N, "excwc": render.EXC_C14N + "WithComments",
       "inc": "http://www.w3.org/TR/2001/REC-xml-c14n-20010315"}
EXTERNAL_URI = "https://sp.example.org/elsewhere.xml"
OTHER_OF = {"a-1": "a-0", "r-1": "r-0"}


def _ref_uri(t, own):
    """URI written into the template that is SIGNED; bare / ext / dangling are rewritten afterwards."""
    return {"own": "#" + own, "other": "#" + OTHER_OF[own], "empty": "", "nouri": None, "xptr": "#xpointer(id('%s'))" % own,
            "bare": "", "dangling": "#" + OTHER_OF[own], "ext": "#" + own}[t]


def shaped_template(own, sh, keyinfo=None, filled=False):
    """ds:Signature in the given shape; filled=True: a complete signature with dummy values (never verifies)."""
    tr = "".join('<ds:Transform Algorithm="%s"/>' % ALG[x] for x in sh["tr"])
    trs = "<ds:Transforms>%s</ds:Transforms>" % tr if sh["tr"] else ""
    refs = "".join('<ds:Reference%s>%s<ds:DigestMethod Algorithm="%s"/><ds:DigestValue>%s</ds:DigestValue></ds:Reference>' % (
        render.attr("URI", _ref_uri(t, own)), trs, render.DIG_SHA256, "AAAA" if filled else "") for t in sh["refs"])
    ki = ""
    if keyinfo:
        from harness import fixtures

        ki = "<ds:KeyInfo><ds:X509Data><ds:X509Certificate>%s</ds:X509Certificate></ds:X509Data></ds:KeyInfo>" % (
            fixtures.cert_b64(keyinfo[1]))
    obj = "<ds:Object>carried along</ds:Object>" if sh["obj"] else ""
    return ('<ds:Signature xmlns:ds="http://www.w3.org/2000/09/xmldsig#"><ds:SignedInfo><ds:CanonicalizationMethod '
            'Algorithm="%s"/><ds:SignatureMethod Algorithm="%s"/>%s</ds:SignedInfo><ds:SignatureValue>%s</ds:SignatureValue>'
            "%s%s</ds:Signature>" % (ALG[sh["c14n"]], render.SIG_SHA256, refs, "AAAA" if filled else "", ki, obj))


def _own_signature_start(xml, own):
    """Offset of the first ds:Signature after the start tag of the element with ID `own`."""
    return re.compile(r"<(?:\w+:)?Signature[ >]").search(xml, xml.index('ID="%s"' % own)).start()


def _rewrite_after_signing(xml, own, sh):
    """The References that cannot be signed as they are meant: rewrite them in the signed message."""
    refs = list(re.compile(r"<(?:\w+:)?Reference\b[^>]*>").finditer(xml, _own_signature_start(xml, own)))
    for idx in reversed(range(len(sh["refs"]))):
        t = sh["refs"][idx]
        m = refs[idx]
        if t == "bare":
            assert 'URI=""' in m.group(0)
            xml = xml[:m.start()] + m.group(0).replace('URI=""', 'URI="#"') + xml[m.end():]
        elif t == "ext":
            assert 'URI="#%s"' % own in m.group(0)
            xml = xml[:m.start()] + m.group(0).replace('URI="#%s"' % own, 'URI="%s"' % EXTERNAL_URI) + xml[m.end():]
    if "dangling" in sh["refs"]:
        other = OTHER_OF[own]
        assert xml.count('ID="%s"' % other) == 1
        xml = xml.replace('ID="%s"' % other, 'ID="%s-gone"' % other, 1)
    return xml


def _element_end(xml, own):
    """Offset of the end tag of the element whose start tag carries ID=own (same-name elements may nest inside)."""
    m = re.search(r"<((?:\w+:)?\w+)\b[^>]*\bID=\"%s\"" % re.escape(own), xml)
    depth = 0
    for t in re.compile(r"<(/?)%s\b[^>]*?(/?)>" % re.escape(m.group(1))).finditer(xml, m.start()):
        if t.group(2):
            continue
        depth += -1 if t.group(1) else 1
        if depth == 0:
            return t.start()
    raise ValueError("end tag of %s not found" % own)


def _move_own_signature_to_end(xml, own):
    """The ds:Signature child of the element `own` (in its usual place, i.e. the first ds:Signature after the start tag)
    becomes the LAST child.  The enveloped-signature transform takes the ds:Signature out before the digest is made, so
    the signature stays exactly as good as it was; pysaml2 reads children by tag, whatever their order."""
    i = _own_signature_start(xml, own)
    j = re.compile(r"</(?:\w+:)?Signature>").search(xml, i).end()
    sigxml, rest = xml[i:j], xml[:i] + xml[j:]
    k = _element_end(rest, own)
    return rest[:k] + sigxml + rest[k:]


def _nested(g):
    return g["sh"]["n"] if g and g.get("sh") and g["sh"]["x"] == "in" else None


def _sig_xml(own, g):
    sh = g.get("sh") or STD_SHAPE
    t = shaped_template(own, sh, _keyinfo(g))
    if sh["x"] == "after":
        t += shaped_template(own, STD_SHAPE, filled=True)
    return t


def _needs_other(g):
    return bool(g and g.get("sh") and any(t in ("other", "dangling") for t in g["sh"]["refs"]))


def build_shaped(st, memo):
    """Like build_step, for messages in which a signature has a shape: the element that a Reference to "another
    element" selects (Assertion a-0 / Response r-0, unsigned, otherwise genuine) is parked where the schema allows
    it (Advice of the assertion, Extensions of the Response, StatusDetail); the signature is made over what its
    References select - for ROther that is, byte for byte, the ds:Signature a genuine signed a-0 / r-0 carries."""
    r = random.Random(st["seed"])
    attrs = [("urn:oid:0.9.2342.19200300.100.1.3", render.NF_URI, "mail", ["a@example.org"])] + random_attrs(r)
    a = spaccept.good_assertion(attributes=attrs, issuer=WHO_ID[st["aw"]] or "")
    resp = spaccept.good_response(issuer=WHO_ID[st["rw"]], status=(render.STATUS_SUCCESS, None, "ok"))
    if st["b"] == "Redirect":
        resp["destination"] = world.SP_ACS_REDIRECT
    rs, as_ = st["rs"], st["as"]

    def parked_assertion(aid):
        # no attributes: their xsi:type="xs:string" needs a prefix declaration that does not survive the
        # re-serialisation of the stand-in when the element is kept as an uninterpreted extension element
        o = spaccept.good_assertion(id=aid, attributes=None, issuer=WHO_ID[st["aw"]] or world.IDP_ID)
        o["subject"] = dict(o["subject"], name_id="subject-0")
        return render.assertion(o)

    a0 = parked_assertion("a-0") if _needs_other(as_) else ""
    r0 = ""
    if _needs_other(rs):
        r0 = render.response(dict(spaccept.good_response(id="r-0", issuer=WHO_ID[st["rw"]] or world.IDP_ID),
                                  assertions_xml=[parked_assertion("a-00")]))
    if as_:
        a["sig_template"] = _sig_xml("a-1", as_)
    advice = (a0 if a0 and as_["sh"]["place"] == "advice" else "") + (r0 if r0 and rs["sh"]["place"] == "advice" else "")
    # round 6: a descendant of the signed element that carries a complete ds:Signature of its own (a signed assertion for
    # subject-0: a-9 inside the assertion, a-8 inside the Response)
    an, rn = _nested(as_), _nested(rs)

    def signed_parked(aid):
        o = spaccept.good_assertion(id=aid, attributes=None, issuer=WHO_ID[st["aw"]] or world.IDP_ID)
        o["subject"] = dict(o["subject"], name_id="subject-0")
        o["sig_template"] = render.signature_template(aid)
        return render.assertion(o)

    if an and an["where"] == "advice":
        advice += signed_parked("a-9")
    if advice:
        a["advice"] = "<saml:Advice>%s</saml:Advice>" % advice
    axml = render.assertion(a)
    if an and an["where"] == "scd":
        m = re.search(r"<saml:SubjectConfirmationData([^>]*)/>", axml)
        axml = axml[:m.start()] + "<saml:SubjectConfirmationData%s>%s</saml:SubjectConfirmationData>" % (m.group(1), signed_parked("a-9")) + axml[m.end():]
    if an and an["where"] == "attrval":
        i = axml.index("</saml:Attribute>")
        axml = axml[:i] + "<saml:AttributeValue>%s</saml:AttributeValue>" % signed_parked("a-9") + axml[i:]
    if st["aw"] == "none":
        assert axml.count("<saml:Issuer></saml:Issuer>") == 1
        axml = axml.replace("<saml:Issuer></saml:Issuer>", "", 1)
    resp["assertions_xml"] = [axml]
    ext = (a0 if a0 and as_["sh"]["place"] == "ext" else "") + (signed_parked("a-8") if rn and rn["where"] == "ext" else "")
    if ext:
        resp["extensions"] = "<samlp:Extensions>%s</samlp:Extensions>" % ext
    if rs:
        resp["sig_template"] = _sig_xml("r-1", rs)
    xml = render.response(resp)
    detail = (r0 if r0 and rs["sh"]["place"] == "status" else "") + (signed_parked("a-8") if rn and rn["where"] == "status" else "")
    if detail:
        assert xml.count("</samlp:StatusMessage>") == 1 and detail.count("</samlp:StatusMessage>") == 0
        i = xml.index("</samlp:StatusMessage>") + len("</samlp:StatusMessage>")
        xml = xml[:i] + "<samlp:StatusDetail>%s</samlp:StatusDetail>" % detail + xml[i:]

    def sign_parked(xml, aid, n):
        xml = render.sign_xml(xml, n["k"], render.A_ELEM, aid)
        return corrupt_assertion(xml, aid, "sigvalue") if n["bad"] else xml

    def finish(xml, own, g):
        sh = g.get("sh")
        if sh:
            xml = _rewrite_after_signing(xml, own, sh)
        if g["c"] and g["c"] != "shape":
            xml = corrupt(xml, g["c"])
        if sh and sh["x"] == "before":
            i = _own_signature_start(xml, own)
            xml = xml[:i] + shaped_template(own, STD_SHAPE, filled=True) + xml[i:]
        if sh and sh["x"] == "in" and sh["n"]["ahead"]:
            xml = _move_own_signature_to_end(xml, own)
        return xml

    if an:
        xml = sign_parked(xml, "a-9", an)
    if as_:
        xml = render.sign_xml(xml, as_["k"], render.A_ELEM, "a-1")
        xml = finish(xml, "a-1", as_)
    if st["enc"]:
        key = ("enc", st.get("rcpt", "sp"), xml)
        if key not in memo:
            memo[key] = render.encrypt_assertion_in_response(xml, RCPT_CERT[st.get("rcpt", "sp")])
        xml = memo[key]
    if rn and rn["where"] in ("ext", "status"):
        xml = sign_parked(xml, "a-8", rn)
    if rs:
        xml = render.sign_xml(xml, rs["k"], render.R_ELEM, "r-1")
        xml = finish(xml, "r-1", rs)
    return xml


# ---- several assertions in one Response (round 5)
ENC_TEMPLATE_N = (
    '<xenc:EncryptedData xmlns:xenc="http://www.w3.org/2001/04/xmlenc#" xmlns:ds="http://www.w3.org/2000/09/xmldsig#" '
    'Id="ED_%(n)d" Type="http://www.w3.org/2001/04/xmlenc#Element">'
    '<xenc:EncryptionMethod Algorithm="http://www.w3.org/2001/04/xmlenc#aes128-cbc"/>'
    '<ds:KeyInfo><xenc:EncryptedKey Id="EK_%(n)d">'
    '<xenc:EncryptionMethod Algorithm="http://www.w3.org/2001/04/xmlenc#rsa-oaep-mgf1p"/>'
    "<xenc:CipherData><xenc:CipherValue/></xenc:CipherData></xenc:EncryptedKey></ds:KeyInfo>"
    "<xenc:CipherData><xenc:CipherValue/></xenc:CipherData></xenc:EncryptedData>"
)
_SAML_NS = "{urn:oasis:names:tc:SAML:2.0:assertion}"


def encrypt_child(xml, n, certname="sp"):
    """Local helper (render.encrypt_assertion_in_response always takes the FIRST plain assertion): wrap the n-th
    Assertion / EncryptedAssertion child of the Response (a plain Assertion) in saml:EncryptedAssertion and encrypt it
    for `certname` through the stand-in (RSA-OAEP + AES-128-CBC); every EncryptedData gets its own Id."""
    import tempfile
    import xml.etree.ElementTree as ET
    from harness import fixtures

    m = env.standin()
    root = m._parse(xml.encode("utf-8") if isinstance(xml, str) else xml)
    kids = [i for i, ch in enumerate(list(root)) if ch.tag in (_SAML_NS + "Assertion", _SAML_NS + "EncryptedAssertion")]
    idx = kids[n]
    a = list(root)[idx]
    assert a.tag == _SAML_NS + "Assertion"
    root.remove(a)
    wrap = ET.Element(_SAML_NS + "EncryptedAssertion")
    wrap.append(a)
    wrap.tail = a.tail
    a.tail = None
    root.insert(idx, wrap)
    with tempfile.NamedTemporaryFile(suffix=".xml", delete=False) as f:
        f.write(ET.tostring(root, encoding="utf-8"))
        path = f.name
    try:
        # the only EncryptedAssertion that still holds an Assertion is the one just made
        out, _, _ = m.do_encrypt({"xml_data": path, "node_xpath": render.ASSERT_XPATH,
                                  "pubkey_cert": fixtures.cert_path(certname)}, (ENC_TEMPLATE_N % {"n": n + 1}).encode())
    finally:
        os.unlink(path)
    return out.decode("utf-8")


def _assertion_span(xml, aid):
    m = re.search(r"<(\w+):Assertion\b[^>]*\bID=\"%s\"" % re.escape(aid), xml)
    end = xml.index("</%s:Assertion>" % m.group(1), m.start()) + len("</%s:Assertion>" % m.group(1))
    return m.start(), end


def corrupt_assertion(xml, aid, how):
    """`corrupt`, confined to the assertion with that ID."""
    i, j = _assertion_span(xml, aid)
    return xml[:i] + corrupt(xml[i:j], how) + xml[j:]


def build_multi(st, memo):
    """Message of a step whose Response carries a LIST of assertions (st["asl"], document order): assertion i has the
    ID a-<i>, its own Issuer, signature (key, KeyInfo, corruption) and travels plain or as EncryptedAssertion.  All
    assertions speak of the same subject; every EncryptedAssertion holds one EncryptedData (the stand-in, like xmlsec1,
    opens ONE EncryptedData - the first in document order - per --decrypt call)."""
    r = random.Random(st["seed"])
    resp = spaccept.good_response(issuer=WHO_ID[st["rw"]], status=(render.STATUS_SUCCESS, None, "ok"))
    if st["b"] == "Redirect":
        resp["destination"] = world.SP_ACS_REDIRECT
    axmls = []
    for i, x in enumerate(st["asl"]):
        aid = "a-%d" % (i + 1)
        attrs = [("urn:oid:0.9.2342.19200300.100.1.3", render.NF_URI, "mail", ["a@example.org"])] + random_attrs(r)
        a = spaccept.good_assertion(id=aid, attributes=attrs, issuer=WHO_ID[x["aw"]] or "")
        if x["as"]:
            a["sig_template"] = render.signature_template(aid, _keyinfo(x["as"]))
        axml = render.assertion(a)
        if x["aw"] == "none":
            assert axml.count("<saml:Issuer></saml:Issuer>") == 1
            axml = axml.replace("<saml:Issuer></saml:Issuer>", "", 1)
        axmls.append(axml)
    resp["assertions_xml"] = axmls
    rs = st["rs"]
    if rs:
        resp["sig_template"] = render.signature_template(resp["id"], _keyinfo(rs))
    xml = render.response(resp)
    for i, x in enumerate(st["asl"]):
        if x["as"]:
            xml = render.sign_xml(xml, x["as"]["k"], render.A_ELEM, "a-%d" % (i + 1))
    for i, x in enumerate(st["asl"]):
        if x["as"] and x["as"]["c"]:
            xml = corrupt_assertion(xml, "a-%d" % (i + 1), x["as"]["c"])
    for i, x in enumerate(st["asl"]):
        if x["enc"]:
            key = ("enc-n", i, st.get("rcpt", "sp"), xml)
            if key not in memo:
                memo[key] = encrypt_child(xml, i, RCPT_CERT[st.get("rcpt", "sp")])
            xml = memo[key]
    if rs:
        xml = render.sign_xml(xml, rs["k"], render.R_ELEM, resp["id"])
        if rs["c"]:
            xml = corrupt(xml, rs["c"])
    return xml


def build_step(st, memo):
    """Message of one step.  Everything but the encryption is deterministic, and the encryption is memoised
    per sequence: steps that share seed and structure share IDs, ciphertext and ds:Signature elements."""
    if "asl" in st:
        return build_multi(st, memo)
    if (st["rs"] and st["rs"].get("sh")) or (st["as"] and st["as"].get("sh")):
        return build_shaped(st, memo)
    r = random.Random(st["seed"])
    attrs = [("urn:oid:0.9.2342.19200300.100.1.3", render.NF_URI, "mail", ["a@example.org"])] + random_attrs(r)
    a = spaccept.good_assertion(attributes=attrs, issuer=WHO_ID[st["aw"]] or "")
    resp = spaccept.good_response(issuer=WHO_ID[st["rw"]], status=(render.STATUS_SUCCESS, None, "ok"))
    if st["b"] == "Redirect":
        resp["destination"] = world.SP_ACS_REDIRECT
    rs, as_ = st["rs"], st["as"]
    if as_:
        a["sig_template"] = render.signature_template(a["id"], _keyinfo(as_))
    axml = render.assertion(a)
    if st["aw"] == "none":
        assert "<saml:Issuer></saml:Issuer>" in axml
        axml = axml.replace("<saml:Issuer></saml:Issuer>", "", 1)
    resp["assertions_xml"] = [axml]
    if rs:
        resp["sig_template"] = render.signature_template(resp["id"], _keyinfo(rs))
    xml = render.response(resp)
    inner = bool(rs and rs["c"] == "inner")
    if inner and (st["enc"] or (as_ and as_["c"] != "nameid")):
        raise ValueError("inner edit needs a plain assertion whose signature (if any) is marked corrupted by nameid")
    if as_:
        xml = render.sign_xml(xml, as_["k"], render.A_ELEM, a["id"])
        if as_["c"] and not inner:
            xml = corrupt(xml, as_["c"])
    if st["enc"]:
        key = ("enc", st.get("rcpt", "sp"), xml)
        if key not in memo:
            memo[key] = render.encrypt_assertion_in_response(xml, RCPT_CERT[st.get("rcpt", "sp")])
        xml = memo[key]
    if rs:
        xml = render.sign_xml(xml, rs["k"], render.R_ELEM, resp["id"])
        if rs["c"]:
            xml = corrupt(xml, rs["c"])
    return xml


# ---------------------------------------------------------------------------- observation
_key_memo = {}


def _memo_private_keys():
    """load_pem_private_key validates the RSA key (~50 ms, twice per Saml2Client): memoise by PEM bytes."""
    import saml2.cryptography.asymmetric as asym

    if getattr(asym.load_pem_private_key, "_verif_memo", False):
        return
    orig = asym.load_pem_private_key

    def load_pem_private_key(data, password=None):
        k = (bytes(data) if not isinstance(data, str) else data, password)
        if k not in _key_memo:
            _key_memo[k] = orig(data, password)
        return _key_memo[k]

    load_pem_private_key._verif_memo = True
    asym.load_pem_private_key = load_pem_private_key


def fresh_sp(over):
    """A new Saml2Client (new SecurityContext, metadata store, identity cache) for one sequence."""
    env.install_standin()
    spaccept.CLOCK.install()
    _memo_private_keys()
    return world.make_sp(**copy.deepcopy(over))


def encode(xml, b):
    if b == "POST":
        return render.b64(xml)
    if b == "Redirect":
        return render.deflate_b64(xml)
    return render.soap_envelope(xml)


def surface_client(cfg, surf):
    """A new Saml2Client that gets its configuration the way `surf` says (local helper: world.make_sp always goes
    through SPConfig().load(dict) and config=)."""
    import hashlib
    import shutil
    import sys
    import tempfile

    env.install_standin()
    spaccept.CLOCK.install()
    _memo_private_keys()
    from saml2.client import Saml2Client
    import saml2.config as sconfig

    setl = list(surf.get("set", []))
    conf = world.sp_config(**copy.deepcopy(opt_over({k: ("unset" if k in setl else v) for k, v in cfg.items()})))
    if surf["proxy"]:
        conf["service"]["idp"] = copy.deepcopy(world.idp_config()["service"]["idp"])
    d = surf["d"]
    if d in ("file", "dict"):
        if setl or surf["ctx"] is not None:
            raise ValueError("the client loads the configuration itself: nothing can be set on the object before")
        if d == "dict":
            return Saml2Client(config_file=conf)
        text = "CONFIG = %r\n" % (conf,)
        name = "c01cfg_" + hashlib.sha256(text.encode("utf-8")).hexdigest()[:16]
        tmp = tempfile.mkdtemp(prefix="c01cfg_")
        path0 = list(sys.path)
        try:
            with open(os.path.join(tmp, name + ".py"), "w") as f:
                f.write(text)
            return Saml2Client(config_file=os.path.join(tmp, name + ".py"))
        finally:
            sys.path[:] = path0
            sys.modules.pop(name, None)
            shutil.rmtree(tmp, ignore_errors=True)
    kind, _, arg = d.partition(":")
    if kind == "obj":
        obj = getattr(sconfig, arg)().load(conf)
    elif kind == "fac":
        obj = sconfig.config_factory(arg, conf)
    else:
        raise ValueError(d)
    for k in setl:
        if cfg[k] == "unset":
            raise ValueError("nothing to set")
        obj.setattr("sp", OPT_NAME[k], cfg[k])
    if surf["ctx"] is not None:
        obj.context = surf["ctx"]
    return Saml2Client(config=obj)


_pem_memo = {}


def _pem(kind, name):
    from harness import fixtures

    if (kind, name) not in _pem_memo:
        with open(fixtures.key_path(name) if kind == "key" else fixtures.cert_path(name)) as f:
            _pem_memo[(kind, name)] = f.read()
    return _pem_memo[(kind, name)]


def outstanding_certs(name):
    """The outstanding_certs argument: {request id: {"key": PEM, "cert": PEM}} or {request id: [such dicts]}
    (generate_cert_info style: the key pair whose certificate went out with the AuthnRequest)."""
    if OCERTS[name] is None:
        return {}
    rid, pairs, as_list = OCERTS[name]
    entries = [{"key": _pem("key", RCPT_CERT[r]), "cert": _pem("cert", RCPT_CERT[r])} for r in pairs]
    return {rid: entries if as_list else entries[0]}


def observe_with_certs(sp, binding, encoded, oc):
    """Local twin of spaccept.observe (which has no outstanding_certs parameter; wish for the shared file): the same
    observation, the per-request key pairs handed to parse_authn_request_response."""
    obs = {"identity": False, "exc": None, "name_id": None, "cached": False}
    try:
        r = sp.parse_authn_request_response(encoded, binding, {"req-1": "/"}, outstanding_certs=oc)
    except Exception as e:  # noqa
        obs["exc"] = type(e).__name__
        r = None
    if r is not None:
        nid = getattr(r, "name_id", None)
        obs["name_id"] = getattr(nid, "text", None) if nid is not None else None
        try:
            si = r.session_info()
        except Exception:
            si = None
        obs["identity"] = bool(obs["name_id"] is not None or getattr(r, "ava", None) or getattr(r, "assertion", None) is not None
                               or si is not None)
    try:
        subs = list(sp.users.subjects())
    except Exception:
        subs = []
    if subs:
        obs["cached"] = True
        obs["identity"] = True
    return obs


def observe(case):
    over = opt_over(case["cfg"])
    if case.get("surf"):
        import saml2

        try:
            sp = surface_client(case["cfg"], case["surf"])
        except saml2.SAMLError as e:
            # the client cannot be built (an unreadable option): no message is consumed, no identity
            return {"steps": [{"identity": None, "exc": "no-client:" + type(e).__name__, "cached": [], "name_id": None}
                              for _ in case["steps"]]}
    else:
        sp = fresh_sp(over) if case["fresh"] else spaccept.get_sp(over)
    memo = {}
    out = []
    for st in case["steps"]:
        xml = build(st) if st.get("legacy") else build_step(st, memo)
        from saml2.population import Population

        sp.users = Population()
        if st.get("oc"):
            o = observe_with_certs(sp, BIND_URI[st["b"]], encode(xml, st["b"]), outstanding_certs(st["oc"]))
        else:
            o = spaccept.observe(sp, xml, BIND_URI[st["b"]], {"req-1": "/"}, encoded=encode(xml, st["b"]))
        out.append({"identity": o["identity"], "exc": o["exc"], "cached": o["cached"], "name_id": o["name_id"]})
    return {"steps": out}


# ---------------------------------------------------------------------------- Coq terms
def cq_optv(v):
    return {"unset": "Unset", True: "(B true)", False: "(B false)", "true": "StrTrue"}[v]


CQ_REF = {"own": "ROwn", "other": "ROther", "empty": "REmpty", "nouri": "RNoUri", "xptr": "RXPtr", "bare": "RBare",
          "dangling": "RDangling", "ext": "RExternal"}
CQ_C14N = {"exc": "CExc", "excwc": "CExcWC", "inc": "CInc"}
CQ_TR = {"env": "TEnv", "exc": "TExc", "excwc": "TExcWC", "inc": "TInc"}
CQ_X = {None: "XNone", "before": "XBefore", "after": "XAfter"}


def cq_sig(g):
    if g is None:
        return "None"
    sh = g.get("sh")
    if not sh:
        return "(sg %s %s %s)" % (CQ_KEY[g["k"]], CQ_KI[g["ki"]], cq(bool(g["c"])))
    return "(sgx %s %s %s [%s] %s [%s] %s %s)" % (
        CQ_KEY[g["k"]], CQ_KI[g["ki"]], cq(bool(g["c"])), "; ".join(CQ_REF[t] for t in sh["refs"]), CQ_C14N[sh["c14n"]],
        "; ".join(CQ_TR[t] for t in sh["tr"]), cq(bool(sh["obj"])),
        "(XIn %s %s %s)" % (cq(bool(sh["n"]["ahead"])), CQ_KEY[sh["n"]["k"]], cq(bool(sh["n"]["bad"]))) if sh["x"] == "in" else CQ_X[sh["x"]])


def cq_ocerts(name):
    if not name:
        return "OAbsent"
    if OCERTS[name] is None:
        return "OEmpty"
    rid, pairs, _as_list = OCERTS[name]
    return "(%s [%s])" % ("OThis" if rid == "req-1" else "OElse", "; ".join(CQ_RCPT[r] for r in pairs))


def cq_step(st, o):
    t = cq_step0(st, o)
    if st.get("oc") or st.get("rcpt", "sp") != "sp":
        return "stk %s %s (%s)" % (CQ_RCPT[st.get("rcpt", "sp")], cq_ocerts(st.get("oc")), t)
    return t


def cq_step0(st, o):
    if "asl" in st:
        return "stm %s %s [%s] %s %s" % (CQ_WHO[st["rw"]], cq_sig(st["rs"]), "; ".join(
            "asr %s %s %s" % (CQ_WHO[x["aw"]], cq_sig(x["as"]), cq(bool(x["enc"]))) for x in st["asl"]), st["b"], cq(bool(o["identity"])))
    if st.get("legacy"):
        return "st WIdp WIdp s%s s%s %s %s %s" % (st["rs"], st["as"], cq(bool(st["enc"])), st["b"], cq(bool(o["identity"])))
    return "st %s %s %s %s %s %s %s" % (CQ_WHO[st["rw"]], CQ_WHO[st["aw"]], cq_sig(st["rs"]), cq_sig(st["as"]),
                                       cq(bool(st["enc"])), st["b"], cq(bool(o["identity"])))


CQ_CTX = {"sp": "XSp", "idp": "XIdp", "aa": "XAa", "": "XNo"}
CQ_CLASS = {"SPConfig": "CSp", "IdPConfig": "CIdp", "Config": "CPlain"}


def cq_deliver(d):
    kind, _, arg = d.partition(":")
    if kind == "obj":
        return "(DObject %s)" % CQ_CLASS[arg]
    if kind == "fac":
        return "(DFactory %s)" % CQ_CTX[arg]
    return {"file": "DFile", "dict": "DDict"}[d]


def cq_written(v, is_set):
    if v == "unset":
        return "WUnset"
    return "(%s (%s))" % ("WSet" if is_set else "WDict", ("PB " + cq(v)) if isinstance(v, bool) else ("PT " + cq(v)))


def coq_case(case, obs):
    c = case["cfg"]
    surf = case.get("surf")
    if surf:
        return "C01.Corr.mkc %s %s %s %s %s %s %s [%s]" % (
            cq_deliver(surf["d"]), "None" if surf["ctx"] is None else "(Some %s)" % CQ_CTX[surf["ctx"]], cq(bool(surf["proxy"])),
            cq_written(c["wr"], "wr" in surf["set"]), cq_written(c["wa"], "wa" in surf["set"]),
            cq_written(c["wor"], "wor" in surf["set"]), cq_optv(c.get("only", "unset")),
            "; ".join(cq_step(s, o) for s, o in zip(case["steps"], obs["steps"])))
    return "C01.Corr.mk (cfg %s %s %s %s) [%s]" % (
        cq_optv(c["wr"]), cq_optv(c["wa"]), cq_optv(c["wor"]), cq_optv(c.get("only", "unset")),
        "; ".join(cq_step(s, o) for s, o in zip(case["steps"], obs["steps"])))


def abstract_step(st):
    k = abstract_step0(st)
    if st.get("oc") or st.get("rcpt", "sp") != "sp":
        return k + ((st.get("rcpt", "sp"), st.get("oc")),)
    return k


def abstract_step0(st):
    if st.get("legacy"):
        return ("idp", "idp", st["rs"], st["as"], st["enc"], st["b"])

    def ab(g):
        if g is None:
            return None
        sh = g.get("sh")
        if not sh:
            return (g["k"], g["ki"], bool(g["c"]))
        nk = (sh["n"]["ahead"], sh["n"]["k"], sh["n"]["bad"], sh["n"]["where"]) if sh["x"] == "in" else None
        return (g["k"], g["ki"], bool(g["c"]), tuple(sh["refs"]), sh["c14n"], tuple(sh["tr"]), sh["obj"], sh["x"]) + ((nk,) if nk else ())
    if "asl" in st:
        return (st["rw"], ab(st["rs"]), [(x["aw"], ab(x["as"]), x["enc"]) for x in st["asl"]], st["b"])
    return (st["rw"], st["aw"], ab(st["rs"]), ab(st["as"]), st["enc"], st["b"])


def nontrivial(case, obs):
    c = case["cfg"]
    key = (str(c["wr"]), str(c["wa"]), str(c["wor"]), str(c.get("only", "unset")), [abstract_step(s) for s in case["steps"]])
    surf = case.get("surf")
    if surf:
        # a string spells another value than the boolean: "True" vs "'true'"
        key = (repr(c["wr"]), repr(c["wa"]), repr(c["wor"]), str(c.get("only", "unset")), key[4],
               (surf["d"], surf["ctx"], surf["proxy"], tuple(sorted(surf["set"]))))
    if key == ("unset", "unset", "unset", "unset", [("idp", "idp", "Valid", "Absent", False, "POST")]):
        return None
    return key


def histogram(cases, observed):
    h = {"by_tag": {}, "messages": 0, "identity": 0, "rejected": 0, "exceptions": {}, "by_binding": {}, "encrypted": 0,
         "sequence_length": {}, "corruptions": {}, "issuer_pairs": {}, "signing_keys": {}, "shaped_signatures": 0,
         "reference_targets": {}, "second_signature": {}, "shapes_accepted": 0, "surfaces": {}, "options_written": {},
         "assertion_lists": {}, "assertion_lists_accepted": {}, "messages_with_several_assertions": 0,
         "descendant_signatures": {}, "descendant_signatures_accepted": 0, "recipient_x_outstanding_certs": {},
         "recipient_x_outstanding_certs_accepted": {}}
    for c, o in zip(cases, observed):
        if c.get("surf"):
            sf = c["surf"]
            k = "%s ctx=%r%s" % (sf["d"], sf["ctx"], " +idp" if sf["proxy"] else "")
            h["surfaces"][k] = h["surfaces"].get(k, 0) + 1
            for ok_ in OPT_KEYS:
                k = "%s%r" % ("setattr " if ok_ in sf["set"] else "", c["cfg"][ok_])
                h["options_written"][k] = h["options_written"].get(k, 0) + 1
        tag = c["tag"].split("-")[0] if c["fresh"] else c["tag"]
        h["by_tag"][tag] = h["by_tag"].get(tag, 0) + 1
        n = str(len(c["steps"]))
        h["sequence_length"][n] = h["sequence_length"].get(n, 0) + 1
        for st, so in zip(c["steps"], o["steps"]):
            h["messages"] += 1
            h["by_binding"][st["b"]] = h["by_binding"].get(st["b"], 0) + 1
            if st.get("oc") or st.get("rcpt", "sp") != "sp":
                k = "%s/%s" % (st.get("rcpt", "sp"), st.get("oc") or "not given")
                h["recipient_x_outstanding_certs"][k] = h["recipient_x_outstanding_certs"].get(k, 0) + 1
                if so["identity"]:
                    h["recipient_x_outstanding_certs_accepted"][k] = h["recipient_x_outstanding_certs_accepted"].get(k, 0) + 1
            for g in (() if st.get("legacy") else (st.get("rs"), st.get("as"))):
                nd = _nested(g)
                if nd:
                    k = "%s %s %s%s" % (nd["where"], "ahead" if nd["ahead"] else "after", nd["k"], " edited" if nd["bad"] else "")
                    h["descendant_signatures"][k] = h["descendant_signatures"].get(k, 0) + 1
                    h["descendant_signatures_accepted"] += 1 if so["identity"] else 0
            if "asl" in st:
                k = "".join("e" if x["enc"] else "p" for x in st["asl"]) or "-"
                h["assertion_lists"][k] = h["assertion_lists"].get(k, 0) + 1
                if so["identity"]:
                    h["assertion_lists_accepted"][k] = h["assertion_lists_accepted"].get(k, 0) + 1
                h["messages_with_several_assertions"] += 1 if len(st["asl"]) > 1 else 0
                h["encrypted"] += 1 if any(x["enc"] for x in st["asl"]) else 0
                h["identity" if so["identity"] else "rejected"] += 1
                if so["exc"]:
                    h["exceptions"][so["exc"]] = h["exceptions"].get(so["exc"], 0) + 1
                for g in [st["rs"]] + [x["as"] for x in st["asl"]]:
                    if g:
                        h["signing_keys"][g["k"]] = h["signing_keys"].get(g["k"], 0) + 1
                        if g["c"]:
                            h["corruptions"][g["c"]] = h["corruptions"].get(g["c"], 0) + 1
                continue
            h["encrypted"] += 1 if st["enc"] else 0
            h["identity" if so["identity"] else "rejected"] += 1
            if so["exc"]:
                h["exceptions"][so["exc"]] = h["exceptions"].get(so["exc"], 0) + 1
            if not st.get("legacy"):
                k = st["rw"] + "/" + st["aw"]
                h["issuer_pairs"][k] = h["issuer_pairs"].get(k, 0) + 1
                for g in (st["rs"], st["as"]):
                    if g:
                        h["signing_keys"][g["k"]] = h["signing_keys"].get(g["k"], 0) + 1
                        if g["c"]:
                            h["corruptions"][g["c"]] = h["corruptions"].get(g["c"], 0) + 1
                        if g.get("sh"):
                            h["shaped_signatures"] += 1
                            k = "+".join(g["sh"]["refs"])
                            h["reference_targets"][k] = h["reference_targets"].get(k, 0) + 1
                            k = str(g["sh"]["x"])
                            h["second_signature"][k] = h["second_signature"].get(k, 0) + 1
                            h["shapes_accepted"] += 1 if so["identity"] else 0
    return h


def explain_term(t):
    return "C01.Corr.explain (%s)" % t


# ---------------------------------------------------------------------------- shrinking a failing sequence
def shrink(case, ctx):
    """Smallest sub-sequence (one message, an ordered pair, a prefix) on which the spec still fails; decided by Coq."""
    steps = case["steps"]
    if len(steps) <= 1:
        return case
    try:
        subs = [[i] for i in range(len(steps))]
        subs += [[i, j] for j in range(len(steps)) for i in range(j)]
        subs += [list(range(k)) for k in range(3, len(steps))]
        cands = [dict(case, steps=[steps[i] for i in idx]) for idx in subs]
        obs = [observe(c) for c in cands]
        results, errors = common.eval_cases(PID, IMPORTS, CASE_TYPE, RUNNER, [coq_case(c, o) for c, o in zip(cands, obs)],
                                            tag="shrink")
        failing = sorted({i for i, code in results if code >= 2})
        if errors or not failing:
            return case
        return cands[min(failing, key=lambda i: (len(cands[i]["steps"]), i))]
    except Exception:
        return case
