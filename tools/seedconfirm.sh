#!/bin/bash
# usage: seedconfirm.sh <dir with patch_k.diff demo_k.py> <k> PID  -> confirms demo pass/fail, baseline unchanged, check detects
set -u
D=$1; K=$2; PID=$3
W=$(mktemp -d /tmp/sc_XXXX)
git -C /repo worktree add -q --detach $W/wt HEAD >/dev/null 2>&1
cd $W/wt
run_demo() { PYTHONHASHSEED=0 PYTHONPATH=$W/wt/src timeout 600 /venv/bin/python $D/demo_$K.py >/dev/null 2>&1; echo $?; }
run_base() { PYTHONPATH=$W/wt/src timeout 1500 /venv/bin/python -m pytest -q -p no:cacheprovider --timeout=900 --continue-on-collection-errors 2>&1 | tail -1; }
d0=$(run_demo)
git apply $D/patch_$K.diff || { echo "$PID/$K patch does not apply"; }
d1=$(run_demo)
b1=$(run_base)
out=$(cd /verif && VERIF_REPO=$W/wt ./check $PID --tier quick 2>&1)
viol=$(echo "$out" | grep -c '^VIOLATION')
last=$(echo "$out" | tail -1)
echo "$PID/$K demo_unchanged=$d0 demo_changed=$d1 baseline_changed=[$b1] violations=$viol :: $last"
echo "$out" | grep '^VIOLATION' | head -2
cd /; git -C /repo worktree remove --force $W/wt; rm -rf $W
