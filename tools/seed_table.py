#!/usr/bin/env python3
"""Print the markdown table of seeded changes (seeded/*/meta.json) for DESIGN.md."""
import glob, json, os
V = os.path.dirname(os.path.dirname(os.path.abspath(__file__)))
print("| seed | property | site | needs to manifest | result |")
print("|---|---|---|---|---|")
for d in sorted(glob.glob(os.path.join(V, "seeded", "*"))):
    m = json.load(open(os.path.join(d, "meta.json")))
    res = m.get("check_result", "")
    short = "DETECTED" if res.startswith("DETECTED") else ("missed first, DETECTED after strengthening" if "=> DETECTED" in res or "DETECTED" in res else "MISSED")
    if res.startswith("MISSED") and "DETECTED" not in res[6:]:
        short = "MISSED"
    need = (m.get("needs_to_manifest") or "").replace("|", "/").replace("\n", " ")
    print("| %s | %s | %s | %s | %s |" % (os.path.basename(d), m.get("property"), (m.get("site") or "").replace("|", "/"), need[:160] + ("…" if len(need) > 160 else ""), short))
