#!/usr/bin/env python3
"""Summarise work/cov/Cxx.json (written by tools/covreport.py) as a markdown table: per property, how much of the
code the property is anchored in the quick-tier correspondence run executes.  Used for DESIGN.md (marker covsum)."""
import glob
import json
import os

V = os.path.dirname(os.path.dirname(os.path.abspath(__file__)))


def main():
    print("| property | cases run | anchored ranges | statements in them | never run | branch arcs never taken |")
    print("|---|---|---|---|---|---|")
    tot = [0, 0, 0]
    for f in sorted(glob.glob(os.path.join(V, "work", "cov", "C??.json"))):
        d = json.load(open(f))
        st = sum(r.get("statements", 0) for r in d["ranges"])
        ml = sum(len(r.get("missing_lines", [])) for r in d["ranges"])
        ma = sum(len(r.get("missing_arcs", [])) for r in d["ranges"])
        tot[0] += st
        tot[1] += ml
        tot[2] += ma
        print("| %s | %s | %d | %d | %d | %d |" % (d["property"], d.get("cases", "?"), len(d["ranges"]), st, ml, ma))
    print("| all | | | %d | %d (%.0f%%) | %d |" % (tot[0], tot[1], 100.0 * tot[1] / max(1, tot[0]), tot[2]))


if __name__ == "__main__":
    main()
