import json, sys, glob, os
pid = sys.argv[1]; ks = sys.argv[2:]  # e.g. 3 4
props = {json.loads(l)["id"]: json.loads(l) for l in open("/verif/properties.jsonl")}
p = props[pid]
used = []
for d in sorted(glob.glob("/verif/seeded/%s-*" % pid)):
    m = json.load(open(d + "/meta.json"))
    used.append("- %s: %s" % (m.get("site"), (m.get("what_it_breaks") or "")[:260]))
wt = "/tmp/seedwt/%s" % pid
out = "/tmp/seed/out/%s" % pid
print(f"""You are a red-team engineer testing how good a (hidden) verification effort for the Python library pysaml2 is. You work ONLY in your own scratch git worktree of the library at {wt} (library source in {wt}/src/saml2, tests in {wt}/tests). Do NOT read, list or use anything under /verif or /repo (the point is that what you write is independent of the verification machinery), and do not create other worktrees. The sandbox has no network; Python is /venv/bin/python (3.12, library dependencies installed). There is NO xmlsec1 binary: code paths that sign/verify XML signatures need a stand-in that you write yourself inside your demonstration (e.g. replace the crypto backend / saml2.sigver.Popen in-process, identically for changed and unchanged library), or choose code paths that do not need it.

THE PROPERTY (this is all you know about what is being verified):
id: {pid}
title: {p['title']}
statement: {p['statement']}
quantified over: {p['quantifier']['text']}
code the property is anchored in: {json.dumps(p['anchors'].get('mechanism'))}
observed at: {json.dumps(p['anchors'].get('observe_at'))}

YOUR TASK: produce {len(ks)} DIFFERENT, independent changes (numbered {', '.join(ks)}) to the library source (files under src/saml2 only; never tests) such that with the change
 (a) the library still imports and the EXISTING test-suite still passes exactly as before: run `cd {wt} && PYTHONPATH={wt}/src /venv/bin/python -m pytest -q -p no:cacheprovider --timeout=900 --continue-on-collection-errors 2>&1 | tail -1` — on the unchanged tree it prints `16 failed, 319 passed, 2 skipped, ... 37 errors` (the failures/errors are pre-existing: no xmlsec1); with your change the SAME 319 must pass (same counts);
 (b) the property above is genuinely broken (a real behaviour the property statement forbids, or fails to deliver what it promises) — not a crash in unrelated code, not a cosmetic change;
 (c) the breakage needs something SPECIFIC to manifest: a particular interleaving, a crash or fault at a particular point, a multi-step sequence of operations, an unusual-but-legal input or configuration, a boundary value, or two cooperating sites that each look fine alone. NOT something ordinary use would expose at once (e.g. not "always accept", not "always raise"). Think of the realistic mistakes a maintainer makes in a refactoring, a performance tweak, a "simplification", an off-by-one, a swapped default, a lost conjunct, a changed precedence, a cache added in the wrong place, a wrong-variable typo.
Each change should be small (1-15 lines) and look plausible in code review. The two changes must be at different sites / mechanisms from each other and from these changes, which were already used in an earlier round (do not repeat them or trivial variants):
{chr(10).join(used) if used else '(none yet)'}

For each change k write into {out}/ (create the directory):
 - patch_k.diff : `git -C {wt} diff` output for that change alone (must apply with `git apply` on a clean worktree at HEAD; make each patch from a clean tree: `git -C {wt} checkout -- .` between them);
 - demo_k.py : a standalone demonstration program, run as `cd {wt} && PYTHONHASHSEED=0 PYTHONPATH={wt}/src /venv/bin/python {out}/demo_k.py`, that exits 0 on the UNCHANGED tree and exits non-zero (printing what went wrong, in terms of the property) on the CHANGED tree. It must not depend on files outside {wt} and {out}, and must be deterministic.
And one {out}/meta.json: a JSON list with one object per change: {{"patch": "patch_k.diff", "demo": "demo_k.py", "site": "src/saml2/<file>.py:<function>", "what_it_breaks": "...", "needs_to_manifest": "..."}}.

Verify all of (a), (b), (c) yourself for each change before finishing (demo on unchanged tree = exit 0, demo with the patch applied = non-zero, test-suite counts unchanged with the patch applied), and leave the worktree CLEAN at HEAD (`git -C {wt} checkout -- . && git -C {wt} status --short` shows nothing but untracked junk) when you are done. Reply with a short summary per change (site, what breaks, what it needs to manifest, the verification outputs you observed). Work autonomously; do not ask questions.""")
