#!/bin/bash
# confirm.sh PID k...   (serialised per property by flock)
PID=$1; shift
for k in "$@"; do
  flock /tmp/seed/lock_$PID /verif/tools/seedconfirm.sh /tmp/seed/out/$PID $k $PID >> /tmp/seed/confirm.log 2>&1
done
grep "^$PID/" /tmp/seed/confirm.log | tail -4
