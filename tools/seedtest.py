#!/usr/bin/env python3
"""Run a property's check against a scratch copy of /repo's working tree with one seeded patch applied.
usage: seedtest.py <patch.diff> PID [--tier quick|thorough] [--demo demo.py]
The scratch copy lives under /tmp and is removed afterwards; /repo itself is never touched (other
checks may be running against it).  Prints DETECTED / MISSED and the VIOLATION lines."""
import os
import shutil
import subprocess
import sys
import tempfile


def main():
    patch, pid = sys.argv[1:3]
    rest = sys.argv[3:]
    demo = None
    if "--demo" in rest:
        i = rest.index("--demo")
        demo = rest[i + 1]
        rest = rest[:i] + rest[i + 2:]
    d = tempfile.mkdtemp(prefix="seed_", dir="/tmp")
    try:
        shutil.copytree("/repo/src", os.path.join(d, "src"))
        if demo:
            shutil.copytree("/repo/tests", os.path.join(d, "tests"))
            r0 = subprocess.run(["/venv/bin/python", os.path.abspath(demo)], cwd=d,
                                env=dict(os.environ, PYTHONPATH=os.path.join(d, "src"), PYTHONHASHSEED="0"),
                                stdout=subprocess.PIPE, stderr=subprocess.STDOUT)
            print("demo on unchanged copy: exit", r0.returncode)
        r = subprocess.run(["patch", "-p1", "-s", "-i", os.path.abspath(patch)], cwd=d,
                           stdout=subprocess.PIPE, stderr=subprocess.STDOUT)
        if r.returncode:
            print("patch failed:", r.stdout.decode())
            sys.exit(2)
        if demo:
            r1 = subprocess.run(["/venv/bin/python", os.path.abspath(demo)], cwd=d,
                                env=dict(os.environ, PYTHONPATH=os.path.join(d, "src"), PYTHONHASHSEED="0"),
                                stdout=subprocess.PIPE, stderr=subprocess.STDOUT)
            print("demo on changed copy: exit", r1.returncode, "|", r1.stdout.decode().strip().splitlines()[-1:] )
        env = dict(os.environ, VERIF_REPO=d)
        r = subprocess.run(["./check", pid] + rest, cwd="/verif", env=env, stdout=subprocess.PIPE, stderr=subprocess.STDOUT)
        out = r.stdout.decode()
        lines = out.strip().splitlines()
        for l in lines:
            if l.startswith("VIOLATION") or l.startswith("KNOWN-FINDING"):
                print(l[:300])
        print(lines[-1] if lines else "")
        print("exit", r.returncode, "=> %s" % ("DETECTED" if r.returncode == 1 and "VIOLATION" in out else "MISSED"))
    finally:
        shutil.rmtree(d, ignore_errors=True)


if __name__ == "__main__":
    main()
