#!/usr/bin/env python3
"""Import confirmed seeded changes from /tmp/seed/out/<PID>/ into /verif/seeded/<PID>-<k>/.
usage: import_seeds.py <confirm.log> [PID ...]   (the log is the output of tools/seedconfirm.sh)"""
import json, os, re, shutil, sys
V = os.path.dirname(os.path.dirname(os.path.abspath(__file__)))
log = open(sys.argv[1]).read()
only = set(sys.argv[2:])
for m in re.finditer(r"^(C\d\d)/(\w) demo_unchanged=(\d+) demo_changed=(\d+) baseline_changed=\[(.*?)\] violations=(\d+) :: (.*)$", log, re.M):
    pid, k, d0, d1, base, viol, last = m.groups()
    if only and pid not in only:
        continue
    src = "/tmp/seed/out/%s" % pid
    if not os.path.exists(os.path.join(src, "patch_%s.diff" % k)):
        continue  # an earlier round: already imported, its scratch output is gone
    if d0 != "0" or d1 == "0" or "319 passed" not in base:
        print("NOT CONFIRMED", pid, k, d0, d1, base)
        continue
    metas = json.load(open(os.path.join(src, "meta.json")))
    meta = next((x for x in metas if x.get("patch") == "patch_%s.diff" % k), {})
    dst = os.path.join(V, "seeded", "%s-%s" % (pid, k))
    if os.path.exists(os.path.join(dst, "meta.json")):
        continue  # already imported (its check_result may have been updated since): never overwrite
    os.makedirs(dst, exist_ok=True)
    shutil.copy(os.path.join(src, "patch_%s.diff" % k), os.path.join(dst, "patch.diff"))
    shutil.copy(os.path.join(src, "demo_%s.py" % k), os.path.join(dst, "demo.py"))
    out = {
        "property": pid,
        "site": meta.get("site"),
        "what_it_breaks": meta.get("what_it_breaks"),
        "needs_to_manifest": meta.get("needs_to_manifest"),
        "origin": "written by a fresh sub-agent that saw only the property text and a scratch worktree of /repo",
        "confirmed_by": "tools/seedconfirm.sh in a scratch git worktree of /repo: demo exits 0 unchanged / non-zero changed; "
                        "baseline suite with the change: " + base.strip("= "),
        "check_run": "VERIF_REPO=<scratch worktree> ./check %s --tier quick" % pid,
        "check_result": ("DETECTED: " if int(viol) else "MISSED: ") + last,
    }
    json.dump(out, open(os.path.join(dst, "meta.json"), "w"), indent=1)
    print(pid, k, out["check_result"][:60])
