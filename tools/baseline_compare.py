#!/usr/bin/env python3
"""Compare a junit xml of the repository's suite with BASELINE.json stable_pass."""
import json, sys
import xml.etree.ElementTree as ET
base = json.load(open("/root/.vp/BASELINE.json"))
t = ET.parse(sys.argv[1])
passed = set()
for tc in t.iter("testcase"):
    if not any(ch.tag in ("failure", "error", "skipped") for ch in tc):
        passed.add("%s::%s" % (tc.get("classname"), tc.get("name")))
missing = [s for s in base["stable_pass"] if s not in passed]
print("stable_pass:", len(base["stable_pass"]), "passed now:", len(passed), "missing:", len(missing))
for m in missing[:20]:
    print("  MISSING", m)
sys.exit(1 if missing else 0)
