#!/usr/bin/env python3
"""Merge findings/Cxx.json fragments (written per property) into the single committed known_findings.json."""
import glob, json, os
V = os.path.dirname(os.path.dirname(os.path.abspath(__file__)))
kf = os.path.join(V, "known_findings.json")
data = json.load(open(kf))
by_id = {f["id"]: f for f in data["findings"]}
for p in sorted(glob.glob(os.path.join(V, "findings", "C*.json"))):
    frag = json.load(open(p))
    items = frag["findings"] if isinstance(frag, dict) else frag
    for f in items:
        keep = {k: f[k] for k in ("id", "property", "class", "status", "site", "what") if k in f}
        if "commit" in f:
            keep["commit"] = f["commit"]
        old = by_id.get(f["id"])
        if old and old.get("status") == "fixed":
            continue  # a fixed entry is never reopened by a fragment
        by_id[f["id"]] = keep
# an OPEN entry of a property whose fragment no longer lists it is stale (withdrawn as a false alarm, or renumbered)
frag_ids, frag_props = set(), set()
for p in sorted(glob.glob(os.path.join(V, "findings", "C*.json"))):
    frag = json.load(open(p))
    for f in (frag["findings"] if isinstance(frag, dict) else frag):
        frag_ids.add(f["id"]); frag_props.add(f["property"])
for i in list(by_id):
    f = by_id[i]
    if f.get("status") == "open" and f["property"] in frag_props and i not in frag_ids:
        print("dropping stale open entry", i)
        del by_id[i]
data["findings"] = sorted(by_id.values(), key=lambda f: f["id"])
json.dump(data, open(kf, "w"), indent=1)
print("known findings:", [(f["id"], f["status"]) for f in data["findings"]])
