#!/usr/bin/env python3
"""Regenerates /verif/MANIFEST.json from the table below (keeps it valid at all times)."""
import json, os
V = os.path.dirname(os.path.dirname(os.path.abspath(__file__)))
TECH = ("Coq 8.16 theorems over a hand-written executable Gallina model + differential correspondence check "
        "(model and spec evaluated by vm_compute on the implementation's recorded outputs)")
COMMON_NOTE = (" Trusted: Coq kernel + vm_compute (no native_compute, no extraction); Print Assumptions of every property theorem is "
               "checked on every run (closed, or stdlib axioms only); the abstraction/renderer code in harness/; ")
props = {
 "C04": dict(
   text="Theorem c04_addressing (for every audience structure, Destination, Recipient, conversation info, endpoint configuration and binding the modelled acceptance decision implies the property), c04_exact_match, c04_complete, c04_spec_reflect, c04_v0_refuted (the pinned snapshot's OR-across-restrictions behaviour violates it; repaired by a fix: commit). The Gallina model mirrors for_me/_verify/verify_recipient/Config.endpoint and is tied to /repo on every run: ~1100 real signed Responses go through Saml2Client.parse_authn_request_response and Coq evaluates per case model = implementation and spec(implementation output).",
   note="Assumes the xmlsec1 stand-in, ASCII whitespace only in padded audiences, everything else in the Response valid.", design="6/C04"),
 "C05": dict(
   text="Theorem c05_validity: for every placement of the six timestamps, every skew and every clock value (> 1970+skew) the modelled decision satisfies soundness (inside every window plus skew, ordered bounds, fresh IssueInstant, reported expiry = SessionNotOnOrAfter else Conditions NotOnOrAfter) and completeness (strictly inside => accepted); closed by lia. Correspondence: ~2500 signed Responses under a frozen virtual clock (exhaustive one-dimensional sweeps x skew x syntax, NotBefore x NotOnOrAfter products, random combinations), model = implementation incl. the boundary seconds.",
   note="Assumes the virtual clock patch (saml2.time_util.time/datetime), whole-second clock, xmlsec1 stand-in. The equality second now == bound+skew is left free in the spec but compared model-vs-code.", design="6/C05"),
 "C06": dict(
   text="Theorem c06_correlation_status_shape: for every outstanding-request set (any size), Response/SubjectConfirmation InResponseTo placement, allow_unsolicited, status, version and assertion shape the modelled decision satisfies correlation (identity only for an outstanding id, all confirmation InResponseTo equal to it, stored context handed back), status (non-Success never yields identity; error class as the code's name demands), shape, and two completeness clauses; by induction over the confirmation list. c06_table_names / c06_table_injective are obligations over the STATUSCODE2EXCEPTION table regenerated from the live source on every run. Correspondence: ~1500 signed Responses (complete products per group + random mixtures).",
   note="Assumes browser binding, the xmlsec1 stand-in, valid signature/times/audience in every case. c06_spec_b_sound: the boolean spec evaluated on implementation outputs implies the Prop spec.", design="6/C06"),
 "C01": dict(
   text="Theorem c01_policy: for all 8192 cells (3 options x {unset, True, False, 'true'} x Response signature state x assertion signature state x plain/encrypted x 4 bindings) the modelled two-pass control flow of _parse_response yields identity iff every present signature verifies and the demanded signatures are carried (both directions; PAOS never unravelled) - a finite truth table proved completely inside the kernel; c01_defaults is an obligation over the option defaults regenerated from client_base.py by AST on every run. Correspondence: the real Saml2Client on real RSA signatures (valid / byte-corrupted / made with an untrusted key), real encryption and all bindings: quick = all 1024 POST/plain cells + 1000 seeded cells of the rest, thorough = all 8192.",
   note="Assumes the xmlsec1 stand-in (sign/verify/encrypt/decrypt) and ideal RSA/AES; message content is not an input of the signature decision (widened randomly in the correspondence).", design="6/C01"),
 "C03": dict(
   text="Theorem c03_trust: for every metadata shape (any number of entities, role descriptors and KeyDescriptors), claimed issuer, embedded certificates, only_use_keys_in_metadata setting, enveloped or detached signature and every ideal signature scheme (Section hypotheses verify_spec, sign_inj; instantiated by a term algebra in c03_instance) the modelled certificate selection + verification loop accepts only under a certificate published for signing (or without use) under the claimed issuer, uses the embedded certificate only as the opt-in fallback when metadata has no signing key for the issuer, hands the verifier only such certificates, and accepts signatures of published signing keys (induction over the lists). Correspondence: the complete 720-cell product of the quantifier (+180 altered-content rows) on real RSA through SP and IdP entry points; observed accept/reject AND which certificate files the xmlsec1 stand-in was handed.",
   note="Crypto idealised (hypotheses named in the theorem statement); xmlsec1 stand-in semantics for --enabled-key-data/--pubkey-cert-pem; single metadata source (store order is C11).", design="6/C03"),
 "C08": dict(
   text="16 closed theorems over metadata of any size (lists of sources, entities, descriptors, endpoints; induction): c08_destinations_from_metadata (forall metadata and operation - IdP answering a request, pick_binding, _sso_location, prepare_for_(negotiated_)authenticate, do_logout over any IdP list, verify_return - whatever is selected is a published (binding, location) pair of the party concerned, chosen by the request's URL/index when given), c08_pick_refuses_url/_index (unregistered URL/index => exception, never a destination), c08_sso_sound, c08_slo_sound, c08_disco_sound/_complete/_exact, c08_binding_origin, c08_spec_reflect, c08_disco_v0_refuted (the pinned snapshot's inverted verify_return; repaired by a fix: commit). Correspondence: ~3700 cases over 20 random metadata worlds incl. the complete URL x index x ProtocolBinding product, real Server.response_args / pick_binding, Saml2Client.prepare_for_authenticate / do_logout (prepared HTTP message inspected) and DiscoveryServer.verify_return.",
   note="Metadata modelled as loaded (mdie strips attribute values); completeness theorems are single-source (multi-source fall-through is C11's subject); stub transport for logout.", design="6/C08"),
 "C10": dict(
   text="11 closed theorems, universally quantified over the regex semantics (rmatch) and the entity-category tables (ectab): c10_release_subset (released names/values/multiplicities are a sub-multiset of the identity, no hypothesis), c10_release_allowed, c10_caller_unchanged (the caller's identity is never altered), c10_missing_required_is_error, c10_policy_level (the whole property for Policy.filter/restrict/apply_policy), c10_guarded (every entry point outside the two open finding classes), c10_setup_assertion_strict, c10_spec_reflect (boolean spec = Prop spec), and the refutations c10_server_release_refuted / c10_nostore_refuted that exhibit the two open findings C10-F1 (best_effort=True hard-coded: MissingValue leaves the unfiltered identity) and C10-F2 (entity categories without metadata store fail open). Entity-category RELEASE tables and the abbreviation table are regenerated from the live modules on every run. Correspondence: ~3100 cases (random identities x policies x requester metadata; Policy.filter/restrict/apply_policy directly and Server.create_authn_response end to end).",
   note="Regular expressions enter as a boolean matrix computed by Python re in the harness (regex engine not modelled); open findings C10-F1, C10-F2 are reported as KNOWN-FINDING lines (known_findings.json).", design="6/C10"),
 "C15": dict(
   text="12 closed theorems for every ideal signature scheme (Section hypotheses ideal: verify_iff, cert_inj, sign_inj; satisfiable: c15_ideal_satisfiable): octets_injective (the signed octet string determines direction, message value, presence and value of RelayState, SigAlg - from the percent-encoding alphabet lemma over all byte strings), c15_verify (a URL signed by k verifies under c iff c = cert_of k, for every message/RelayState/allowed algorithm), c15_tamper (whatever verifies under the signer's certificate has the four parameters unchanged, for any presented Signature parameter that is not the base64 text of another signature of the signer), c15_sound, c15_allow, c15_unsupported, c15_property (whole spec), c15_request (Request._loads on Redirect), c15_spec_reflect, c15_tables (regenerated SIG_ALLOWED_ALG / SIGNER_ALGS / REQ_ORDER / RESP_ORDER obligations), c15_f1_v0_refuted (the pinned snapshot's lenient base64 decoding of Signature; repaired by fix: 9a4284f6). Correspondence: ~2200 cases with real RSA (5 algorithms + disallowed/unknown URIs, both directions, single-parameter mutation operators, right and wrong keys, through pack.http_redirect_message / Entity.apply_binding / verify_redirect_signature / Request._loads).",
   note="Signatures idealised (hypotheses named in each statement); zlib outside the model (the deflated value is an input).", design="6/C15"),
 "C17": dict(
   text="27 closed theorems: generic ones for EVERY converter set / statement / value list (c17_send, c17_receive_exact, c17_unknown_dropped, c17_unknown_allowed, c17_send_receive for any symmetric map, c17_send_receive_set, c17_round, from_dict/adjust symmetry for one-directional maps, reflection of the three boolean specs) and regenerated table theorems over the five bundled maps as translated from the live modules on every run (c17_bundled_from_dict, c17_bundled_symmetric, c17_bundled_pairs_ok_except, c17_bundled_lost_exactly: exactly the 18 known (converter, attribute) pairs are lost), plus refutations that exhibit the open findings C17-F1 (adfs_v1x/adfs_v20 share the unspecified name format) and C17-F2 (eduPersonTargetedID unwrapping). Correspondence: ~6400 cases: every (map, attribute) pair x random value lists x allow_unknown_attributes x mixed statements through the real from_local / to_local / AttributeConverter, random custom maps.",
   note="ASCII lower-casing (generators avoid cased non-ASCII letters in attribute names); open findings C17-F1, C17-F2 are reported as KNOWN-FINDING lines.", design="6/C17"),
}
checks = []
for pid, d in sorted(props.items()):
    checks.append({
        "property_id": pid,
        "quick_cmd": "./check %s --tier quick" % pid,
        "thorough_cmd": "./check %s --tier thorough" % pid,
        "evidence_file": "evidence/%s.json" % pid,
        "replay_cmd_template": "./check %s --replay {path}" % pid,
        "engine": "coq-model+correspondence",
        "level_claimed": {"category": "proof", "text": d["text"], "design_ref": d["design"]},
        "level_note": d["note"] + COMMON_NOTE,
        "technique": d.get("technique", TECH),
    })
allp = ["C%02d" % i for i in range(1, 21)]
m = {
 "version": 1,
 "setup_cmd": "./check --setup",
 "hooks": {"guard": "PYSAML2_VERIF",
           "enable": "no source hooks: instrumentation is applied from the harness (xmlsec_binary config option, replacement of module attributes such as saml2.sigver.Popen and saml2.time_util.time)",
           "baseline_off_cmd": "cd /repo && /venv/bin/python -m pytest -ra -q -p no:cacheprovider --timeout=900 --continue-on-collection-errors",
           "source_commits": [], "add_only": True},
 "engines": [{"name": "coq-model+correspondence", "path": "coq/ + harness/", "serves_properties": sorted(props),
              "kind_free_text": "machine-checked proof (Coq 8.16.1) over executable Gallina models, tied to the code by a correspondence check run on every invocation"}],
 "checks": checks,
 "not_applicable": [{"property_id": p, "reason": "not claimed yet: model, theorems and correspondence still under construction (DESIGN.md section 9); the technique applies"} for p in allp if p not in props],
 "notes": "See DESIGN.md. known_findings.json lists genuine defects (open / fixed).",
}
json.dump(m, open(os.path.join(V, "MANIFEST.json"), "w"), indent=1)
print("claimed:", sorted(props))
