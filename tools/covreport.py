#!/usr/bin/env python3
"""Generator-quality tool (not a check): which lines / branch arcs of the code a property is anchored in are
never executed by the property's correspondence run?

usage: PYTHONHASHSEED=0 PYTHONPATH=/repo/src:/verif /venv/bin/python tools/covreport.py C05 [--tier quick|thorough]

Runs harness.<pid>.generate + observe under coverage.py (branch coverage, single process) and prints, for every
anchored range of properties.jsonl (anchors.mechanism[].where = file:lines), the lines that were never run and
the branch arcs that were never taken.  A never-taken arc inside an anchored range is a place where a changed
condition would go unnoticed by the correspondence: extend the generator there.  Writes work/cov/<pid>.json."""
import importlib
import json
import os
import re
import sys

import coverage

V = os.path.dirname(os.path.dirname(os.path.abspath(__file__)))
sys.path.insert(0, V)


def main():
    pid = sys.argv[1]
    tier = "quick"
    if "--tier" in sys.argv:
        tier = sys.argv[sys.argv.index("--tier") + 1]
    from harness import common, env
    env.check_repo_import()
    src = os.path.join(env.SRC, "saml2")
    cov = coverage.Coverage(branch=True, source=[src], data_file=None, config_file=False)
    mod = importlib.import_module("harness." + pid.lower())
    mod.PARALLEL = 0
    ctx = common.Ctx(pid, tier, int(os.environ.get("VERIF_SEED", "20260926")))
    cases = mod.generate(ctx)
    cov.start()
    try:
        for c in cases:
            mod.observe(c)
    finally:
        cov.stop()
    props = {json.loads(l)["id"]: json.loads(l) for l in open(os.path.join(V, "properties.jsonl"))}
    report = {"property": pid, "tier": tier, "cases": len(cases), "ranges": []}
    import ast
    import subprocess

    def funcs(tree):
        out = []

        def walk(body, prefix):
            for n in body:
                if isinstance(n, (ast.FunctionDef, ast.AsyncFunctionDef)):
                    out.append((prefix + n.name, n.lineno, n.end_lineno))
                    walk(n.body, prefix + n.name + ".")
                elif isinstance(n, ast.ClassDef):
                    walk(n.body, prefix + n.name + ".")
        walk(tree.body, "")
        return out

    def current_ranges(rel, ranges):
        """The anchors give line numbers of the pinned snapshot: map them to the functions they lie in and take
        those functions' extents in the CURRENT file (module-level lines: kept as they are)."""
        old = subprocess.run(["git", "-C", os.path.dirname(env.SRC), "show", "28480bb7:" + rel], capture_output=True, text=True).stdout
        names = set()
        try:
            for name, lo, hi in funcs(ast.parse(old)):
                if any(not (hi < a or b < lo) for a, b in ranges):
                    names.add(name)
        except SyntaxError:
            return ranges, []
        # keep the innermost functions only
        names = {n for n in names if not any(m != n and m.startswith(n + ".") for m in names)} or names
        cur = funcs(ast.parse(open(os.path.join(env.SRC, rel[len("src/"):])).read()))
        out = [(lo, hi) for name, lo, hi in cur if name in names]
        return (out or ranges), sorted(names)

    for mech in props[pid]["anchors"].get("mechanism", []):
      for where in [w.strip() for w in mech.get("where", "").split(";")]:
        m = re.match(r"(src/saml2/[^:]+):(.*)$", where)
        if not m:
            continue
        path = os.path.join(env.SRC, m.group(1)[len("src/"):])
        ranges = []
        for part in m.group(2).split(","):
            part = part.strip()
            if re.match(r"^\d+-\d+$", part):
                a, b = part.split("-")
                ranges.append((int(a), int(b)))
            elif part.isdigit():
                ranges.append((int(part), int(part)))
        ranges, fnames = current_ranges(m.group(1), ranges)
        try:
            _, stmts, _excl, missing, _ = cov.analysis2(path)
            an = cov._analyze(path)
            arcs_missing = sorted(an.arcs_missing())
        except Exception as e:  # file never imported
            report["ranges"].append({"name": mech.get("name"), "where": where, "error": str(e)})
            continue
        inr = lambda n: any(a <= abs(n) <= b for a, b in ranges)  # noqa: E731
        lines = open(path).read().splitlines()
        isdef = lambda n: re.match(r"\s*(def |class |@|async def )", lines[n - 1]) is not None  # noqa: E731  (run at import)
        miss = [n for n in missing if inr(n) and not isdef(n)]
        arcs = [(a, b) for a, b in arcs_missing if inr(a) and a > 0 and not isdef(a)]
        report["ranges"].append({
            "name": mech.get("name"), "where": where, "functions": fnames,
            "statements": len([n for n in stmts if inr(n)]), "missing_lines": miss,
            "missing_arcs": arcs,
            "missing_text": {str(n): lines[n - 1].strip()[:110] for n in miss[:80]},
            "arc_text": {"%d->%d" % (a, b): lines[a - 1].strip()[:110] for a, b in arcs[:80]}})
    os.makedirs(os.path.join(V, "work", "cov"), exist_ok=True)
    with open(os.path.join(V, "work", "cov", pid + ".json"), "w") as f:
        json.dump(report, f, indent=1)
    for r in report["ranges"]:
        print("== %s  [%s] %s" % (r.get("name"), r.get("where"), ", ".join(r.get("functions", []))))
        if "error" in r:
            print("   ", r["error"])
            continue
        print("   statements in range: %d, never run: %d, arcs never taken: %d" % (
            r["statements"], len(r["missing_lines"]), len(r["missing_arcs"])))
        for n, t in r["missing_text"].items():
            print("   line %s: %s" % (n, t))
        for k, t in r["arc_text"].items():
            print("   arc  %s: %s" % (k, t))


if __name__ == "__main__":
    main()
