#!/usr/bin/env python3
"""List, per property, the library functions whose SOURCE TEXT is re-translated to Gallina on every run
(coq/gen/Cxx*Src*.v, written by harness/py2coq.py and harness/py2coq2.py) and the `cxx_source*` theorems
proved about the translations.  Prints markdown (used for DESIGN.md, marker src-index)."""
import glob
import os
import re

V = os.path.dirname(os.path.dirname(os.path.abspath(__file__)))


def main():
    rows = []
    for n in range(1, 21):
        pid = "C%02d" % n
        fns = []
        for f in sorted(glob.glob(os.path.join(V, "coq", "gen", pid + "Src*.v"))):
            for m in re.finditer(r"^\(\* (saml2/[\w/]+\.py):([\w.]+)[, ]", open(f).read(), re.M):
                q = "%s:%s" % (m.group(1)[6:], m.group(2))
                if q not in fns:
                    fns.append(q)
        thms = []
        p = os.path.join(V, "coq", "theories", pid, "Property.v")
        if os.path.exists(p):
            thms = re.findall(r"^Theorem (c\d\d_source\w*)", open(p).read(), re.M)
        rows.append((pid, fns, thms))
    print("| property | functions translated from the source text on every run | theorems about the translation |")
    print("|---|---|---|")
    for pid, fns, thms in rows:
        print("| %s | %s | %s |" % (pid, ", ".join("`%s`" % x for x in fns) or "-",
                                   ", ".join("`%s`" % t for t in thms) or "-"))
    print()
    print("%d functions, %d theorems." % (sum(len(r[1]) for r in rows), sum(len(r[2]) for r in rows)))


if __name__ == "__main__":
    main()
