#!/usr/bin/env python3
"""Self-test helper: run a check against a scratch copy of /repo/src with one textual mutation.
usage: mutest.py PID relpath 'old' 'new' [--tier quick]   (old must occur exactly once unless --all)"""
import os, shutil, subprocess, sys, tempfile
pid, rel, old, new = sys.argv[1:5]
d = tempfile.mkdtemp(prefix="mut_", dir="/tmp")
try:
    shutil.copytree("/repo/src", os.path.join(d, "src"))
    p = os.path.join(d, "src", rel)
    s = open(p).read()
    n = s.count(old)
    if n != 1 and "--all" not in sys.argv:
        print("pattern occurs %d times" % n); sys.exit(2)
    open(p, "w").write(s.replace(old, new))
    env = dict(os.environ, VERIF_REPO=d)
    r = subprocess.run(["./check", pid] + [a for a in sys.argv[5:] if a != "--all"], cwd="/verif", env=env,
                       stdout=subprocess.PIPE, stderr=subprocess.STDOUT)
    out = r.stdout.decode()
    print("\n".join(out.strip().splitlines()[-4:]))
    print("exit", r.returncode, "=> %s" % ("DETECTED" if r.returncode == 1 and "VIOLATION" in out else "MISSED"))
finally:
    shutil.rmtree(d, ignore_errors=True)
