#!/usr/bin/env python3
"""Regenerate the generated tables of DESIGN.md (between <!-- BEGIN:x --> / <!-- END:x --> markers) from
known_findings.json (repairs, open findings) and seeded/*/meta.json (seeded changes)."""
import glob, json, os, re, subprocess
V = os.path.dirname(os.path.dirname(os.path.abspath(__file__)))
kf = json.load(open(os.path.join(V, "known_findings.json")))["findings"]


def esc(s):
    return (s or "").replace("|", "/").replace("\n", " ")


def commit_subject(c):
    try:
        return subprocess.run(["git", "-C", "/repo", "log", "-1", "--format=%s", c], capture_output=True, text=True).stdout.strip()
    except Exception:
        return ""


def fixes():
    rows = {}
    for f in kf:
        if f.get("status") == "fixed" and f.get("commit"):
            rows.setdefault(f["commit"], []).append(f)
    order = subprocess.run(["git", "-C", "/repo", "log", "--reverse", "--format=%h"], capture_output=True, text=True).stdout.split()
    pos = {c[:8]: i for i, c in enumerate(order)}
    out = ["| commit | property | finding | defect (subject of the fix: commit) |", "|---|---|---|---|"]
    for c in sorted(rows, key=lambda c: pos.get(c[:8], 10 ** 6)):
        fs = rows[c]
        subj = commit_subject(c)
        subj = re.sub(r"^fix:\s*", "", subj)
        out.append("| %s | %s | %s | %s |" % (c, fs[0]["property"], ", ".join(f["id"] for f in fs), esc(subj)))
    return "\n".join(out)


def open_findings():
    out = ["| id | site | what fails |", "|---|---|---|"]
    for f in kf:
        if f.get("status") == "open":
            out.append("| %s | %s | %s |" % (f["id"], esc(f.get("site"))[:160], esc(f.get("what"))[:420]))
    return "\n".join(out)


def seeds():
    out = ["| seed | site | needs to manifest | result |", "|---|---|---|---|"]
    for d in sorted(glob.glob(os.path.join(V, "seeded", "*"))):
        m = json.load(open(os.path.join(d, "meta.json")))
        res = m.get("check_result", "")
        if res.startswith("DETECTED"):
            short = "DETECTED"
            if " 0 spec failure" in res and "no-failing-input" not in res and "model disagreement" in res and " 0 model" not in res:
                short = "DETECTED (model disagreement, no failing input)"
        elif "=> DETECTED" in res:
            short = "missed first, DETECTED after strengthening"
        else:
            short = "MISSED"
        if m.get("detected_by"):
            short += " (" + m["detected_by"] + ")"
        need = esc(m.get("needs_to_manifest"))
        out.append("| %s | %s | %s | %s |" % (os.path.basename(d), esc(m.get("site")), need[:200] + ("…" if len(need) > 200 else ""), short))
    return "\n".join(out)


def srcindex():
    return subprocess.run(["python3", os.path.join(V, "tools", "src_index.py")], capture_output=True, text=True).stdout.strip()


def covsum():
    return subprocess.run(["python3", os.path.join(V, "tools", "cov_summary.py")], capture_output=True, text=True).stdout.strip()


p = os.path.join(V, "DESIGN.md")
s = open(p).read()
for name, fn in (("fixes", fixes), ("open", open_findings), ("seeds", seeds), ("srcindex", srcindex), ("covsum", covsum)):
    pat = re.compile(r"(<!-- BEGIN:%s -->\n).*?(\n<!-- END:%s -->)" % (name, name), re.S)
    if not pat.search(s):
        print("marker missing:", name)
        continue
    s = pat.sub(lambda m: m.group(1) + fn() + m.group(2), s)
open(p, "w").write(s)
print("DESIGN.md tables regenerated")
